#!/bin/sh
# Build the fact extractor (nightly, rustc_private, zero cargo deps). Offline.
set -e
cd "$(dirname "$0")/driver"
CARGO_NET_OFFLINE=true cargo +nightly build --release --offline
test -x target/release/absy-facts
