// absy-facts: rustc_private fact extractor for the static checks in /verif.
//
// Used as RUSTC_WRAPPER under `cargo +nightly check`.  For the crates named in
// ABSY_CRATES (default abyssiniandb,rabuf,vu64) it dumps, right after macro
// expansion and before anything steals `mir_built`, one JSON file per crate
// into ABSY_FACTS_DIR: every MIR body (CFG, statements, calls with resolved
// callees, constants), the crate's evaluated const items, ADTs and trait
// impls.  For every other crate it behaves exactly like rustc.
//
// Nothing here executes the analysed code; it only serialises what the
// compiler has type-checked.
#![feature(rustc_private)]
#![allow(clippy::all)]

extern crate rustc_abi;
extern crate rustc_data_structures;
extern crate rustc_driver;
extern crate rustc_hir;
extern crate rustc_index;
extern crate rustc_interface;
extern crate rustc_middle;
extern crate rustc_session;
extern crate rustc_span;

use rustc_driver::{Callbacks, Compilation};
use rustc_hir::def::DefKind;
use rustc_hir::def_id::{DefId, LocalDefId, LOCAL_CRATE};
use rustc_middle::mir::{
    self, AggregateKind, BasicBlock, Body, Const, ConstValue, Operand, Place, PlaceElem, Rvalue,
    StatementKind, TerminatorKind,
};
use rustc_middle::ty::print::{with_no_trimmed_paths, with_no_visible_paths, with_resolve_crate_name};
use rustc_middle::ty::{self, Instance, Ty, TyCtxt, TypingEnv};
use rustc_span::Span;
use std::fmt::Write as _;

// ---------------------------------------------------------------------------
// tiny JSON value
// ---------------------------------------------------------------------------
#[derive(Clone)]
enum J {
    Null,
    B(bool),
    I(i128),
    S(String),
    A(Vec<J>),
    O(Vec<(&'static str, J)>),
}

fn esc(s: &str, out: &mut String) {
    out.push('"');
    for c in s.chars() {
        match c {
            '"' => out.push_str("\\\""),
            '\\' => out.push_str("\\\\"),
            '\n' => out.push_str("\\n"),
            '\r' => out.push_str("\\r"),
            '\t' => out.push_str("\\t"),
            c if (c as u32) < 0x20 => {
                let _ = write!(out, "\\u{:04x}", c as u32);
            }
            c => out.push(c),
        }
    }
    out.push('"');
}

impl J {
    fn s<T: Into<String>>(t: T) -> J {
        J::S(t.into())
    }
    fn write(&self, out: &mut String) {
        match self {
            J::Null => out.push_str("null"),
            J::B(b) => out.push_str(if *b { "true" } else { "false" }),
            J::I(i) => {
                let _ = write!(out, "{}", i);
            }
            J::S(s) => esc(s, out),
            J::A(v) => {
                out.push('[');
                for (i, x) in v.iter().enumerate() {
                    if i > 0 {
                        out.push(',');
                    }
                    x.write(out);
                }
                out.push(']');
            }
            J::O(v) => {
                out.push('{');
                for (i, (k, x)) in v.iter().enumerate() {
                    if i > 0 {
                        out.push(',');
                    }
                    esc(k, out);
                    out.push(':');
                    x.write(out);
                }
                out.push('}');
            }
        }
    }
}

// ---------------------------------------------------------------------------
// printing helpers
// ---------------------------------------------------------------------------
fn full<R>(f: impl FnOnce() -> R) -> R {
    with_no_trimmed_paths!(with_resolve_crate_name!(with_no_visible_paths!(f())))
}

fn dpath(tcx: TyCtxt<'_>, did: DefId) -> String {
    full(|| tcx.def_path_str(did))
}

fn dpath_args<'tcx>(tcx: TyCtxt<'tcx>, did: DefId, args: ty::GenericArgsRef<'tcx>) -> String {
    full(|| tcx.def_path_str_with_args(did, args))
}

fn ty_s(ty: Ty<'_>) -> String {
    full(|| format!("{}", ty))
}

fn span_s(tcx: TyCtxt<'_>, sp: Span) -> String {
    // use the outermost call site so that macro bodies map to user lines
    let sp = sp.source_callsite();
    let sm = tcx.sess.source_map();
    let lo = sm.lookup_char_pos(sp.lo());
    let name = match &lo.file.name {
        rustc_span::FileName::Real(r) => match r.local_path() {
            Some(p) => p.display().to_string(),
            None => format!("{:?}", lo.file.name),
        },
        other => format!("{:?}", other),
    };
    format!("{}:{}", name, lo.line)
}

fn macro_chain(sp: Span) -> Vec<J> {
    let mut v = Vec::new();
    for ed in sp.macro_backtrace() {
        match ed.kind {
            rustc_span::ExpnKind::Macro(k, name) => {
                v.push(J::s(format!("{}:{}", k.descr(), name)));
            }
            rustc_span::ExpnKind::Desugaring(d) => {
                v.push(J::s(format!("desugar:{:?}", d)));
            }
            rustc_span::ExpnKind::AstPass(p) => {
                v.push(J::s(format!("astpass:{:?}", p)));
            }
            rustc_span::ExpnKind::Root => {}
        }
    }
    v
}

// ---------------------------------------------------------------------------
// the extractor
// ---------------------------------------------------------------------------
struct Cx<'tcx> {
    tcx: TyCtxt<'tcx>,
}

impl<'tcx> Cx<'tcx> {
    fn field_name(&self, base_ty: mir::PlaceTy<'tcx>, f: rustc_abi::FieldIdx) -> String {
        let tcx = self.tcx;
        match base_ty.ty.kind() {
            ty::Adt(adt, _) => {
                let vidx = base_ty.variant_index.unwrap_or(rustc_abi::FIRST_VARIANT);
                if adt.is_enum() && base_ty.variant_index.is_none() {
                    return format!("{}", f.as_usize());
                }
                let variant = adt.variant(vidx);
                let fld = &variant.fields[f];
                let an = full(|| tcx.def_path_str(adt.did()));
                if adt.is_enum() {
                    format!("{}::{}.{}", an, variant.name, fld.name)
                } else {
                    format!("{}.{}", an, fld.name)
                }
            }
            _ => format!("{}", f.as_usize()),
        }
    }

    fn place(&self, body: &Body<'tcx>, p: &Place<'tcx>) -> J {
        let tcx = self.tcx;
        let mut proj = Vec::new();
        for (base, elem) in p.iter_projections() {
            let s = match elem {
                PlaceElem::Deref => "*".to_string(),
                PlaceElem::Field(f, _) => {
                    let bt = base.ty(body, tcx);
                    format!("f:{}", self.field_name(bt, f))
                }
                PlaceElem::Index(l) => format!("idx:{}", l.as_usize()),
                PlaceElem::ConstantIndex { offset, from_end, .. } => {
                    format!("cidx:{}{}", if from_end { "-" } else { "" }, offset)
                }
                PlaceElem::Subslice { from, to, from_end } => {
                    format!("sub:{}:{}:{}", from, to, from_end)
                }
                PlaceElem::Downcast(name, v) => match name {
                    Some(n) => format!("dc:{}", n),
                    None => format!("dc:#{}", v.as_usize()),
                },
                PlaceElem::OpaqueCast(_) => "opaque".to_string(),
                PlaceElem::UnwrapUnsafeBinder(_) => "unwrapbinder".to_string(),
            };
            proj.push(J::S(s));
        }
        J::O(vec![("l", J::I(p.local.as_usize() as i128)), ("p", J::A(proj))])
    }

    fn alloc_bytes(&self, alloc_id: mir::interpret::AllocId, off: u64, len: u64) -> Option<Vec<u8>> {
        let ga = self.tcx.try_get_global_alloc(alloc_id)?;
        match ga {
            mir::interpret::GlobalAlloc::Memory(a) => {
                let a = a.inner();
                let total = a.len() as u64;
                if off + len > total {
                    return None;
                }
                let bytes = a.inspect_with_uninit_and_ptr_outside_interpreter(
                    (off as usize)..((off + len) as usize),
                );
                Some(bytes.to_vec())
            }
            _ => None,
        }
    }

    /// Decode a constant value of a "simple" type to JSON: ints, bools, chars,
    /// arrays of ints, byte strings / strs behind a reference.
    fn const_value(&self, cv: ConstValue, ty: Ty<'tcx>) -> J {
        let tcx = self.tcx;
        let env = TypingEnv::fully_monomorphized();
        match cv {
            ConstValue::ZeroSized => {
                if let ty::FnDef(did, args) = ty.kind() {
                    return J::O(vec![
                        ("fn", J::S(dpath(tcx, *did))),
                        ("fnargs", J::S(dpath_args(tcx, *did, args))),
                    ]);
                }
                J::O(vec![("zst", J::S(ty_s(ty)))])
            }
            ConstValue::Scalar(mir::interpret::Scalar::Int(si)) => {
                let size = si.size();
                let bits = si.to_bits(size);
                match ty.kind() {
                    ty::Int(_) => {
                        let v = size.sign_extend(bits) as i128;
                        J::O(vec![("int", J::S(format!("{}", v)))])
                    }
                    ty::Bool => J::O(vec![("bool", J::B(bits != 0))]),
                    _ => J::O(vec![("int", J::S(format!("{}", bits)))]),
                }
            }
            ConstValue::Scalar(mir::interpret::Scalar::Ptr(ptr, _)) => {
                // pointer to an allocation: &[u8; N], &T ...
                let (prov, off) = ptr.into_raw_parts();
                let alloc_id = prov.alloc_id();
                if let ty::Ref(_, inner, _) = ty.kind() {
                    if let ty::Array(et, n) = inner.kind() {
                        if let Some(n) = n.try_to_target_usize(tcx) {
                            if let Some(esz) = self.int_size(*et) {
                                if let Some(b) = self.alloc_bytes(alloc_id, off.bytes(), n * esz) {
                                    return self.decode_array(&b, esz, et.is_signed());
                                }
                            }
                        }
                    }
                    if let Some(esz) = self.int_size(*inner) {
                        if let Some(b) = self.alloc_bytes(alloc_id, off.bytes(), esz) {
                            return self.decode_array(&b, esz, inner.is_signed());
                        }
                    }
                }
                let _ = env;
                J::O(vec![("ptr", J::S(ty_s(ty)))])
            }
            ConstValue::Slice { alloc_id, meta } => {
                // &str or &[u8]
                if let Some(b) = self.alloc_bytes(alloc_id, 0, meta) {
                    if let ty::Ref(_, inner, _) = ty.kind() {
                        if inner.is_str() {
                            return J::O(vec![("str", J::S(String::from_utf8_lossy(&b).to_string()))]);
                        }
                    }
                    return J::O(vec![(
                        "bytes",
                        J::A(b.iter().map(|x| J::I(*x as i128)).collect()),
                    )]);
                }
                J::O(vec![("slice", J::S(ty_s(ty)))])
            }
            ConstValue::Indirect { alloc_id, offset } => {
                if let ty::Array(et, n) = ty.kind() {
                    if let Some(n) = n.try_to_target_usize(tcx) {
                        if let Some(esz) = self.int_size(*et) {
                            if let Some(b) = self.alloc_bytes(alloc_id, offset.bytes(), n * esz) {
                                return self.decode_array(&b, esz, et.is_signed());
                            }
                        }
                    }
                }
                J::O(vec![("indirect", J::S(ty_s(ty)))])
            }
        }
    }

    fn int_size(&self, t: Ty<'tcx>) -> Option<u64> {
        match t.kind() {
            ty::Uint(u) => Some(match u {
                ty::UintTy::U8 => 1,
                ty::UintTy::U16 => 2,
                ty::UintTy::U32 => 4,
                ty::UintTy::U64 => 8,
                ty::UintTy::Usize => 8,
                ty::UintTy::U128 => 16,
            }),
            ty::Int(i) => Some(match i {
                ty::IntTy::I8 => 1,
                ty::IntTy::I16 => 2,
                ty::IntTy::I32 => 4,
                ty::IntTy::I64 => 8,
                ty::IntTy::Isize => 8,
                ty::IntTy::I128 => 16,
            }),
            _ => None,
        }
    }

    fn decode_array(&self, b: &[u8], esz: u64, _signed: bool) -> J {
        let mut v = Vec::new();
        for ch in b.chunks(esz as usize) {
            let mut x: u128 = 0;
            for (i, byte) in ch.iter().enumerate() {
                x |= (*byte as u128) << (8 * i);
            }
            v.push(J::S(format!("{}", x)));
        }
        if esz == 1 {
            J::O(vec![("bytes", J::A(b.iter().map(|x| J::I(*x as i128)).collect()))])
        } else {
            J::O(vec![("ints", J::A(v))])
        }
    }

    fn constant(&self, owner: LocalDefId, c: &Const<'tcx>, span: Span) -> J {
        let tcx = self.tcx;
        let ty = c.ty();
        let mut o: Vec<(&'static str, J)> = vec![("k", J::s("c")), ("ty", J::S(ty_s(ty)))];
        match c {
            Const::Val(cv, ty) => {
                o.push(("v", self.const_value(*cv, *ty)));
            }
            Const::Unevaluated(uv, ty) => {
                o.push(("cdef", J::S(dpath(tcx, uv.def))));
                if let Some(p) = uv.promoted {
                    o.push(("promoted", J::I(p.as_usize() as i128)));
                }
                let env = TypingEnv::post_analysis(tcx, owner);
                match c.eval(tcx, env, span) {
                    Ok(cv) => o.push(("v", self.const_value(cv, *ty))),
                    Err(_) => o.push(("v", J::Null)),
                }
            }
            Const::Ty(_, ct) => {
                o.push(("tyconst", J::S(full(|| format!("{}", ct)))));
                if let Some(v) = ct.try_to_target_usize(tcx) {
                    o.push(("v", J::O(vec![("int", J::S(format!("{}", v)))])));
                }
            }
        }
        J::O(o)
    }

    fn operand(&self, owner: LocalDefId, body: &Body<'tcx>, op: &Operand<'tcx>) -> J {
        match op {
            Operand::Copy(p) => {
                J::O(vec![("k", J::s("cp")), ("pl", self.place(body, p))])
            }
            Operand::Move(p) => {
                J::O(vec![("k", J::s("mv")), ("pl", self.place(body, p))])
            }
            Operand::Constant(c) => self.constant(owner, &c.const_, c.span),
            _ => J::O(vec![("k", J::s("other"))]),
        }
    }

    fn rvalue(&self, owner: LocalDefId, body: &Body<'tcx>, rv: &Rvalue<'tcx>) -> J {
        let tcx = self.tcx;
        match rv {
            Rvalue::Use(op, ..) => J::O(vec![("rv", J::s("use")), ("a", self.operand(owner, body, op))]),
            Rvalue::Repeat(op, n) => J::O(vec![
                ("rv", J::s("repeat")),
                ("a", self.operand(owner, body, op)),
                (
                    "n",
                    match n.try_to_target_usize(tcx) {
                        Some(v) => J::I(v as i128),
                        None => J::Null,
                    },
                ),
            ]),
            Rvalue::Ref(_, bk, p) => J::O(vec![
                ("rv", J::s("ref")),
                ("mut", J::B(matches!(bk, mir::BorrowKind::Mut { .. }))),
                ("pl", self.place(body, p)),
            ]),
            Rvalue::RawPtr(_, p) => J::O(vec![("rv", J::s("rawptr")), ("pl", self.place(body, p))]),
            Rvalue::ThreadLocalRef(d) => {
                J::O(vec![("rv", J::s("tls")), ("def", J::S(dpath(tcx, *d)))])
            }
            Rvalue::Cast(kind, op, ty) => J::O(vec![
                ("rv", J::s("cast")),
                ("kind", J::S(format!("{:?}", kind))),
                ("a", self.operand(owner, body, op)),
                ("ty", J::S(ty_s(*ty))),
            ]),
            Rvalue::BinaryOp(op, ab) => J::O(vec![
                ("rv", J::s("bin")),
                ("op", J::S(format!("{:?}", op))),
                ("a", self.operand(owner, body, &ab.0)),
                ("b", self.operand(owner, body, &ab.1)),
                ("aty", J::S(ty_s(ab.0.ty(body, tcx)))),
            ]),
            Rvalue::UnaryOp(op, a) => J::O(vec![
                ("rv", J::s("un")),
                ("op", J::S(format!("{:?}", op))),
                ("a", self.operand(owner, body, a)),
            ]),
            Rvalue::Discriminant(p) => {
                J::O(vec![("rv", J::s("discr")), ("pl", self.place(body, p))])
            }
            Rvalue::Aggregate(kind, ops) => {
                let mut o: Vec<(&'static str, J)> = vec![("rv", J::s("agg"))];
                match &**kind {
                    AggregateKind::Array(t) => {
                        o.push(("agg", J::s("array")));
                        o.push(("ety", J::S(ty_s(*t))));
                    }
                    AggregateKind::Tuple => o.push(("agg", J::s("tuple"))),
                    AggregateKind::Adt(did, vidx, _, _, _) => {
                        o.push(("agg", J::s("adt")));
                        o.push(("adt", J::S(dpath(tcx, *did))));
                        let adt = tcx.adt_def(*did);
                        let variant = adt.variant(*vidx);
                        o.push(("variant", J::S(variant.name.to_string())));
                        o.push((
                            "fields",
                            J::A(variant.fields.iter().map(|f| J::S(f.name.to_string())).collect()),
                        ));
                    }
                    AggregateKind::Closure(did, _) => {
                        o.push(("agg", J::s("closure")));
                        o.push(("closure", J::S(dpath(tcx, *did))));
                    }
                    AggregateKind::RawPtr(..) => o.push(("agg", J::s("rawptr"))),
                    _ => o.push(("agg", J::s("other"))),
                }
                o.push(("ops", J::A(ops.iter().map(|x| self.operand(owner, body, x)).collect())));
                J::O(o)
            }
            Rvalue::CopyForDeref(p) => {
                J::O(vec![("rv", J::s("use")), ("a", J::O(vec![("k", J::s("cp")), ("pl", self.place(body, p))]))])
            }
            _ => J::O(vec![("rv", J::s("other")), ("dbg", J::S(format!("{:?}", rv)))]),
        }
    }

    fn bb(&self, b: BasicBlock) -> J {
        J::I(b.as_usize() as i128)
    }

    fn unwind(&self, u: &mir::UnwindAction) -> J {
        match u {
            mir::UnwindAction::Cleanup(b) => self.bb(*b),
            _ => J::Null,
        }
    }

    fn terminator(&self, owner: LocalDefId, body: &Body<'tcx>, t: &mir::Terminator<'tcx>) -> J {
        let tcx = self.tcx;
        let mut o: Vec<(&'static str, J)> = Vec::new();
        o.push(("span", J::S(span_s(tcx, t.source_info.span))));
        match &t.kind {
            TerminatorKind::Goto { target } => {
                o.push(("t", J::s("goto")));
                o.push(("target", self.bb(*target)));
            }
            TerminatorKind::SwitchInt { discr, targets } => {
                o.push(("t", J::s("switch")));
                o.push(("discr", self.operand(owner, body, discr)));
                o.push(("dty", J::S(ty_s(discr.ty(body, tcx)))));
                let mut v = Vec::new();
                for (val, bb) in targets.iter() {
                    v.push(J::A(vec![J::S(format!("{}", val)), self.bb(bb)]));
                }
                o.push(("targets", J::A(v)));
                o.push(("otherwise", self.bb(targets.otherwise())));
            }
            TerminatorKind::UnwindResume => o.push(("t", J::s("resume"))),
            TerminatorKind::UnwindTerminate(_) => o.push(("t", J::s("terminate"))),
            TerminatorKind::Return => o.push(("t", J::s("return"))),
            TerminatorKind::Unreachable => o.push(("t", J::s("unreachable"))),
            TerminatorKind::Drop { place, target, unwind, .. } => {
                o.push(("t", J::s("drop")));
                o.push(("pl", self.place(body, place)));
                o.push(("target", self.bb(*target)));
                o.push(("unwind", self.unwind(unwind)));
            }
            TerminatorKind::Call { func, args, destination, target, unwind, fn_span, .. } => {
                o.push(("t", J::s("call")));
                let fty = func.ty(body, tcx);
                match fty.kind() {
                    ty::FnDef(did, gargs) => {
                        o.push(("callee", J::S(dpath(tcx, *did))));
                        o.push(("callee_full", J::S(dpath_args(tcx, *did, gargs))));
                        o.push((
                            "gargs",
                            J::A(gargs.iter().map(|a| J::S(full(|| format!("{}", a)))).collect()),
                        ));
                        // trait the callee belongs to (if a trait method)
                        if let Some(tr) = tcx.trait_of_assoc(*did) {
                            o.push(("callee_trait", J::S(dpath(tcx, tr))));
                        }
                        if let Some(im) = tcx.impl_of_assoc(*did) {
                            let st = tcx.type_of(im).instantiate_identity().skip_norm_wip();
                            o.push(("callee_impl_self", J::S(ty_s(st))));
                        }
                        // resolve
                        let env = TypingEnv::post_analysis(tcx, owner);
                        match Instance::try_resolve(tcx, env, *did, gargs) {
                            Ok(Some(inst)) => {
                                let rd = inst.def_id();
                                o.push(("resolved", J::S(dpath(tcx, rd))));
                                o.push(("resolved_kind", J::S(format!("{:?}", std::mem::discriminant(&inst.def)))));
                                if let ty::InstanceKind::Virtual(..) = inst.def {
                                    o.push(("virtual", J::B(true)));
                                }
                            }
                            _ => o.push(("resolved", J::Null)),
                        }
                    }
                    _ => {
                        o.push(("callee", J::Null));
                        o.push(("fn_op", self.operand(owner, body, func)));
                        o.push(("fn_ty", J::S(ty_s(fty))));
                    }
                }
                o.push((
                    "args",
                    J::A(args.iter().map(|a| self.operand(owner, body, &a.node)).collect()),
                ));
                o.push((
                    "arg_tys",
                    J::A(args.iter().map(|a| J::S(ty_s(a.node.ty(body, tcx)))).collect()),
                ));
                o.push(("dest", self.place(body, destination)));
                o.push(("target", match target {
                    Some(b) => self.bb(*b),
                    None => J::Null,
                }));
                o.push(("unwind", self.unwind(unwind)));
                o.push(("macros", J::A(macro_chain(*fn_span))));
                o.push(("from_expansion", J::B(fn_span.from_expansion())));
            }
            TerminatorKind::Assert { cond, expected, msg, target, unwind } => {
                o.push(("t", J::s("assert")));
                o.push(("cond", self.operand(owner, body, cond)));
                o.push(("expected", J::B(*expected)));
                let kind = match &**msg {
                    mir::AssertKind::BoundsCheck { .. } => "BoundsCheck".to_string(),
                    mir::AssertKind::Overflow(op, _, _) => format!("Overflow:{:?}", op),
                    mir::AssertKind::OverflowNeg(_) => "OverflowNeg".to_string(),
                    mir::AssertKind::DivisionByZero(_) => "DivisionByZero".to_string(),
                    mir::AssertKind::RemainderByZero(_) => "RemainderByZero".to_string(),
                    other => format!("{:?}", std::mem::discriminant(other)),
                };
                o.push(("kind", J::S(kind)));
                o.push(("target", self.bb(*target)));
                o.push(("unwind", self.unwind(unwind)));
            }
            TerminatorKind::FalseEdge { real_target, .. } => {
                o.push(("t", J::s("goto")));
                o.push(("target", self.bb(*real_target)));
            }
            TerminatorKind::FalseUnwind { real_target, .. } => {
                o.push(("t", J::s("goto")));
                o.push(("target", self.bb(*real_target)));
            }
            other => {
                o.push(("t", J::s("other")));
                o.push(("dbg", J::S(format!("{:?}", std::mem::discriminant(other)))));
            }
        }
        J::O(o)
    }

    fn dump_body(&self, ldid: LocalDefId, body: &Body<'tcx>) -> J {
        let tcx = self.tcx;
        let did = ldid.to_def_id();
        let kind = tcx.def_kind(did);

        let mut o: Vec<(&'static str, J)> = Vec::new();
        o.push(("id", J::S(dpath(tcx, did))));
        o.push(("dp", J::S(format!("{}{}", tcx.crate_name(LOCAL_CRATE), tcx.def_path(did).to_string_no_crate_verbose()))));
        o.push(("name", J::S(match tcx.opt_item_name(did) {
            Some(n) => n.to_string(),
            None => "{closure}".to_string(),
        })));
        o.push(("kind", J::S(format!("{:?}", kind))));
        o.push(("span", J::S(span_s(tcx, body.span))));
        o.push(("from_expansion", J::B(tcx.def_span(did).from_expansion())));
        if matches!(kind, DefKind::Fn | DefKind::AssocFn) {
            o.push(("vis", J::S(format!("{:?}", tcx.visibility(did)))));
            o.push(("pub", J::B(tcx.visibility(did).is_public())));
        }
        // parent (for closures) / impl / trait
        let parent = tcx.parent(did);
        o.push(("parent", J::S(dpath(tcx, parent))));
        if let Some(im) = tcx.impl_of_assoc(did) {
            let st = tcx.type_of(im).instantiate_identity().skip_norm_wip();
            o.push(("impl_self", J::S(ty_s(st))));
            if let ty::Adt(adt, _) = st.kind() {
                o.push(("impl_self_adt", J::S(dpath(tcx, adt.did()))));
            }
            if let Some(tr) = tcx.impl_opt_trait_ref(im) {
                let tr = tr.instantiate_identity().skip_norm_wip();
                o.push(("impl_trait", J::S(dpath(tcx, tr.def_id))));
                o.push(("impl_trait_full", J::S(full(|| format!("{}", tr)))));
            }
            o.push(("impl_from_expansion", J::B(tcx.def_span(im).from_expansion())));
        }
        if let Some(tr) = tcx.trait_of_assoc(did) {
            o.push(("trait_default_of", J::S(dpath(tcx, tr))));
        }
        o.push(("arg_count", J::I(body.arg_count as i128)));
        // locals
        let mut names: Vec<Option<String>> = vec![None; body.local_decls.len()];
        for vdi in body.var_debug_info.iter() {
            if let mir::VarDebugInfoContents::Place(p) = &vdi.value {
                if p.projection.is_empty() {
                    names[p.local.as_usize()] = Some(vdi.name.to_string());
                }
            }
        }
        let mut locals = Vec::new();
        for (l, decl) in body.local_decls.iter_enumerated() {
            let mut lo: Vec<(&'static str, J)> = vec![("ty", J::S(ty_s(decl.ty)))];
            if let Some(n) = &names[l.as_usize()] {
                lo.push(("name", J::S(n.clone())));
            }
            locals.push(J::O(lo));
        }
        o.push(("locals", J::A(locals)));
        // blocks
        let mut blocks = Vec::new();
        for (_bbi, data) in body.basic_blocks.iter_enumerated() {
            let mut stmts = Vec::new();
            for st in data.statements.iter() {
                match &st.kind {
                    StatementKind::Assign(b) => {
                        let (pl, rv) = &**b;
                        let mut so = vec![
                            ("s", J::s("assign")),
                            ("lhs", self.place(body, pl)),
                            ("rhs", self.rvalue(ldid, body, rv)),
                            ("span", J::S(span_s(tcx, st.source_info.span))),
                        ];
                        if st.source_info.span.from_expansion() {
                            so.push(("macros", J::A(macro_chain(st.source_info.span))));
                        }
                        stmts.push(J::O(so));
                    }
                    StatementKind::SetDiscriminant { place, variant_index } => {
                        stmts.push(J::O(vec![
                            ("s", J::s("setdiscr")),
                            ("lhs", self.place(body, place)),
                            ("variant", J::I(variant_index.as_usize() as i128)),
                        ]));
                    }
                    StatementKind::Intrinsic(i) => {
                        stmts.push(J::O(vec![
                            ("s", J::s("intrinsic")),
                            ("dbg", J::S(format!("{:?}", i))),
                        ]));
                    }
                    _ => {}
                }
            }
            let term = match &data.terminator {
                Some(t) => self.terminator(ldid, body, t),
                None => J::Null,
            };
            blocks.push(J::O(vec![
                ("cleanup", J::B(data.is_cleanup)),
                ("stmts", J::A(stmts)),
                ("term", term),
            ]));
        }
        o.push(("blocks", J::A(blocks)));
        // signature
        if matches!(kind, DefKind::Fn | DefKind::AssocFn) {
            let sig = tcx.fn_sig(did).instantiate_identity().skip_norm_wip().skip_binder();
            o.push(("inputs", J::A(sig.inputs().iter().map(|t| J::S(ty_s(*t))).collect())));
            o.push(("output", J::S(ty_s(sig.output()))));
        }
        J::O(o)
    }

    fn dump_const_item(&self, ldid: LocalDefId) -> Option<J> {
        let tcx = self.tcx;
        let did = ldid.to_def_id();
        let ty = tcx.type_of(did).instantiate_identity().skip_norm_wip();
        // only simple (non-generic) consts
        if tcx.generics_of(did).count() != 0 {
            return None;
        }
        let ok = match ty.kind() {
            ty::Uint(_) | ty::Int(_) | ty::Bool => true,
            ty::Array(et, _) => self.int_size(*et).is_some(),
            ty::Ref(_, inner, _) => match inner.kind() {
                ty::Array(et, _) => self.int_size(*et).is_some(),
                ty::Str => true,
                ty::Slice(et) => self.int_size(*et).is_some(),
                _ => false,
            },
            _ => false,
        };
        if !ok {
            return None;
        }
        let val = match tcx.const_eval_poly(did) {
            Ok(cv) => self.const_value(cv, ty),
            Err(_) => J::Null,
        };
        Some(J::O(vec![
            ("id", J::S(dpath(tcx, did))),
            ("name", J::S(tcx.item_name(did).to_string())),
            ("ty", J::S(ty_s(ty))),
            ("v", val),
            ("span", J::S(span_s(tcx, tcx.def_span(did)))),
        ]))
    }

    fn dump_adt(&self, ldid: LocalDefId) -> J {
        let tcx = self.tcx;
        let did = ldid.to_def_id();
        let adt = tcx.adt_def(did);
        let mut variants = Vec::new();
        for v in adt.variants().iter() {
            let mut fields = Vec::new();
            for f in v.fields.iter() {
                let fty = tcx.type_of(f.did).instantiate_identity().skip_norm_wip();
                fields.push(J::O(vec![
                    ("name", J::S(f.name.to_string())),
                    ("ty", J::S(ty_s(fty))),
                    ("pub", J::B(f.vis.is_public())),
                ]));
            }
            variants.push(J::O(vec![("name", J::S(v.name.to_string())), ("fields", J::A(fields))]));
        }
        J::O(vec![
            ("id", J::S(dpath(tcx, did))),
            ("name", J::S(tcx.item_name(did).to_string())),
            ("kind", J::S(format!("{:?}", tcx.def_kind(did)))),
            ("pub", J::B(tcx.visibility(did).is_public())),
            ("variants", J::A(variants)),
            ("span", J::S(span_s(tcx, tcx.def_span(did)))),
        ])
    }

    fn dump_impl(&self, ldid: LocalDefId) -> J {
        let tcx = self.tcx;
        let did = ldid.to_def_id();
        let st = tcx.type_of(did).instantiate_identity().skip_norm_wip();
        let mut o: Vec<(&'static str, J)> = vec![
            ("id", J::S(dpath(tcx, did))),
            ("self", J::S(ty_s(st))),
            ("from_expansion", J::B(tcx.def_span(did).from_expansion())),
            ("macros", J::A(macro_chain(tcx.def_span(did)))),
            ("span", J::S(span_s(tcx, tcx.def_span(did)))),
        ];
        if let ty::Adt(adt, _) = st.kind() {
            o.push(("self_adt", J::S(dpath(tcx, adt.did()))));
        }
        if let Some(tr) = tcx.impl_opt_trait_ref(did) {
            let tr = tr.instantiate_identity().skip_norm_wip();
            o.push(("trait", J::S(dpath(tcx, tr.def_id))));
            o.push(("trait_full", J::S(full(|| format!("{}", tr)))));
        }
        let mut items = Vec::new();
        for it in tcx.associated_items(did).in_definition_order() {
            items.push(J::O(vec![
                ("name", J::S(it.name().to_string())),
                ("id", J::S(dpath(tcx, it.def_id))),
                ("kind", J::S(format!("{:?}", it.kind))),
            ]));
        }
        o.push(("items", J::A(items)));
        J::O(o)
    }
}

struct FactsCb {
    out_dir: String,
}

impl Callbacks for FactsCb {
    fn after_expansion<'tcx>(
        &mut self,
        _compiler: &rustc_interface::interface::Compiler,
        tcx: TyCtxt<'tcx>,
    ) -> Compilation {
        let cx = Cx { tcx };
        let krate = tcx.crate_name(LOCAL_CRATE).to_string();
        let mut fns = Vec::new();
        let mut consts = Vec::new();
        let mut adts = Vec::new();
        let mut impls = Vec::new();
        let mut traits = Vec::new();
        // Phase 1: take a private copy of every function body *before* anything is evaluated: constant
        // evaluation (while dumping operands, or while building another body) runs the MIR pipeline for the
        // bodies it needs and steals their `mir_built`.
        let mut bodies: Vec<(LocalDefId, Body<'tcx>, bool)> = Vec::new();
        for ldid in tcx.hir_body_owners() {
            let kind = tcx.def_kind(ldid);
            if matches!(kind, DefKind::Fn | DefKind::AssocFn | DefKind::Closure) {
                let steal = tcx.mir_built(ldid);
                if steal.is_stolen() {
                    // already consumed (a const fn evaluated while building an earlier body): fall back to the
                    // optimised body so that the function is still represented
                    bodies.push((ldid, tcx.optimized_mir(ldid.to_def_id()).clone(), true));
                } else {
                    bodies.push((ldid, steal.borrow().clone(), false));
                }
            }
        }
        for (ldid, body, _fallback) in bodies.iter() {
            fns.push(cx.dump_body(*ldid, body));
        }
        for ldid in tcx.hir_crate_items(()).definitions() {
            let kind = tcx.def_kind(ldid);
            match kind {
                DefKind::Const { .. } | DefKind::AssocConst { .. } => {
                    if let Some(j) = cx.dump_const_item(ldid) {
                        consts.push(j);
                    }
                }
                DefKind::Struct | DefKind::Enum => adts.push(cx.dump_adt(ldid)),
                DefKind::Impl { .. } => impls.push(cx.dump_impl(ldid)),
                DefKind::Trait => {
                    let did = ldid.to_def_id();
                    let mut items = Vec::new();
                    for it in tcx.associated_items(did).in_definition_order() {
                        items.push(J::O(vec![
                            ("name", J::S(it.name().to_string())),
                            ("id", J::S(dpath(tcx, it.def_id))),
                            ("has_default", J::B(it.defaultness(tcx).has_value())),
                        ]));
                    }
                    traits.push(J::O(vec![("id", J::S(dpath(tcx, did))), ("items", J::A(items))]));
                }
                _ => {}
            }
        }
        let mut cfgs = Vec::new();
        for (name, val) in tcx.sess.config.iter() {
            if name.as_str() == "feature" {
                if let Some(v) = val {
                    cfgs.push(J::S(v.to_string()));
                }
            }
        }
        let root = J::O(vec![
            ("crate", J::S(krate.clone())),
            ("features", J::A(cfgs)),
            ("overflow_checks", J::B(tcx.sess.overflow_checks())),
            ("debug_assertions", J::B(tcx.sess.opts.debug_assertions)),
            ("functions", J::A(fns)),
            ("consts", J::A(consts)),
            ("adts", J::A(adts)),
            ("impls", J::A(impls)),
            ("traits", J::A(traits)),
        ]);
        let mut s = String::with_capacity(1 << 22);
        root.write(&mut s);
        let path = format!("{}/{}.json", self.out_dir, krate);
        let tmp = format!("{}.tmp{}", path, std::process::id());
        std::fs::write(&tmp, s).expect("absy-facts: cannot write fact file");
        std::fs::rename(&tmp, &path).expect("absy-facts: cannot rename fact file");
        Compilation::Continue
    }
}

struct NoCb;
impl Callbacks for NoCb {}

fn main() {
    let mut args: Vec<String> = std::env::args().collect();
    // RUSTC_WRAPPER mode: argv[1] is the real rustc
    if args.len() > 1 {
        let is_rustc = std::path::Path::new(&args[1])
            .file_stem()
            .map(|s| s == "rustc")
            .unwrap_or(false);
        if is_rustc {
            args.remove(1);
        }
    }
    if !args.iter().any(|a| a.starts_with("--sysroot")) {
        if let Ok(s) = std::env::var("ABSY_SYSROOT") {
            args.push("--sysroot".to_string());
            args.push(s);
        }
    }
    let mut crate_name = String::new();
    for i in 0..args.len() {
        if args[i] == "--crate-name" && i + 1 < args.len() {
            crate_name = args[i + 1].clone();
        }
    }
    let wanted = std::env::var("ABSY_CRATES").unwrap_or_else(|_| "abyssiniandb,rabuf,vu64".to_string());
    let out_dir = std::env::var("ABSY_FACTS_DIR").ok();
    let is_target = !crate_name.is_empty() && wanted.split(',').any(|c| c == crate_name);
    match (is_target, out_dir) {
        (true, Some(out_dir)) => {
            let mut cb = FactsCb { out_dir };
            rustc_driver::run_compiler(&args, &mut cb);
        }
        _ => {
            let mut cb = NoCb;
            rustc_driver::run_compiler(&args, &mut cb);
        }
    }
}
