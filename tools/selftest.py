#!/usr/bin/env python3
"""Checker validation (not the deciding step): apply each mutant in selftest/mutants/*.json to a scratch copy of
/repo (outside /repo and /verif), make sure it still type-checks, run the named checks against the copy and require
that the expected rule fires (or, for benign variants, that nothing fires).  Scratch copies are removed at once.

usage: tools/selftest.py [name-substring ...] [-j N]
"""
import json
import os
import shutil
import subprocess
import sys
import tempfile
from concurrent.futures import ThreadPoolExecutor

HERE = os.path.dirname(os.path.dirname(os.path.abspath(__file__)))
MUT = os.path.join(HERE, "selftest", "mutants")
REPO = "/repo"


def run_one(path):
    spec = json.load(open(path))
    name = os.path.basename(path)[:-5]
    work = tempfile.mkdtemp(prefix="absy-mut-")
    res = {"name": name, "props": spec["props"], "benign": spec.get("benign", False)}
    try:
        dst = os.path.join(work, "repo")
        shutil.copytree(REPO, dst, ignore=shutil.ignore_patterns("target", ".git"))
        for e in spec["edits"]:
            fp = os.path.join(dst, e["file"])
            s = open(fp).read()
            cnt = s.count(e["old"])
            if e.get("count", 1) == -1 and cnt >= 1:
                pass
            elif cnt != e.get("count", 1):
                res["status"] = "STALE"
                res["detail"] = "edit anchor occurs %d times in %s (expected %d)" % (cnt, e["file"], e.get("count", 1))
                return res
            s = s.replace(e["old"], e["new"])
            open(fp, "w").write(s)
        fired = {}
        ok = True
        for prop in spec["props"]:
            env = dict(os.environ)
            env["ABSY_REPO"] = dst
            env["ABSY_EVIDENCE_DIR"] = os.path.join(work, "evidence")
            p = subprocess.run([os.path.join(HERE, "check"), prop, "--tier", "quick"], env=env, stdout=subprocess.PIPE,
                               stderr=subprocess.STDOUT, text=True)
            keys = []
            for line in p.stdout.splitlines():
                if line.startswith("VIOLATION"):
                    rp = line.split("replay=", 1)[1].strip()
                    try:
                        keys.append(json.load(open(rp))["key"])
                    except Exception:
                        keys.append(rp)
            fired[prop] = {"rc": p.returncode, "keys": keys}
            if "could not be evaluated" in p.stdout and "fact extraction failed" in p.stdout:
                res["status"] = "NOCOMPILE"
                res["detail"] = p.stdout[-1500:]
                return res
        res["fired"] = fired
        if spec.get("benign"):
            bad = {p: f for p, f in fired.items() if f["rc"] != 0}
            res["status"] = "SILENT" if not bad else "FALSE-ALARM"
        else:
            exp = spec.get("expect", {})
            missing = []
            for prop in spec["props"]:
                want = exp.get(prop)
                got = fired[prop]["keys"]
                if want is None:
                    if fired[prop]["rc"] == 0:
                        missing.append(prop)
                elif not any(want in k for k in got):
                    missing.append("%s (wanted %s, got %s)" % (prop, want, got))
            res["status"] = "KILLED" if not missing else "MISSED"
            res["detail"] = missing
    finally:
        shutil.rmtree(work, ignore_errors=True)
    return res


def main():
    args = [a for a in sys.argv[1:] if not a.startswith("-")]
    jobs = 8
    if "-j" in sys.argv:
        jobs = int(sys.argv[sys.argv.index("-j") + 1])
        args = [a for a in args if a != str(jobs)]
    files = sorted(os.path.join(MUT, f) for f in os.listdir(MUT) if f.endswith(".json"))
    if args:
        files = [f for f in files if any(a in os.path.basename(f) for a in args)]
    with ThreadPoolExecutor(max_workers=jobs) as ex:
        results = list(ex.map(run_one, files))
    bad = 0
    for r in results:
        good = r["status"] in ("KILLED", "SILENT")
        bad += 0 if good else 1
        print("%-11s %-45s %s %s" % (r["status"], r["name"], ",".join(r["props"]),
                                   "" if good else json.dumps(r.get("detail") or r.get("fired"))[:600]))
    out = {"mutants": len(results), "killed": sum(r["status"] == "KILLED" for r in results),
           "benign_silent": sum(r["status"] == "SILENT" for r in results), "problems": bad, "results": results}
    json.dump(out, open(os.path.join(HERE, "selftest", "last_run.json"), "w"), indent=1)
    print("selftest: %d mutants, %d killed, %d benign silent, %d problem(s)" % (out["mutants"], out["killed"], out["benign_silent"], bad))
    return 1 if bad else 0


if __name__ == "__main__":
    sys.exit(main())
