#!/bin/sh
# evaluate the round-12 seeds (A -> suffix s), four at a time
cd /verif
one() {
  i=$1; v=$2
  d="/tmp/out12-C$i/$v"; sfx=s
  if [ -f "$d/patch.diff" ] && [ -f "$d/notes.md" ] && [ ! -f "seeded/C$i-$sfx/meta.json" ]; then
    python3 tools/eval_seed.py "$d" "C$i-$sfx" 2>&1 | python3 -c "
import sys,json
t=sys.stdin.read()
try:
    d=json.loads(t[t.index('{'):])
    print(d['name'], 'confirmed' if d['confirmed'] else 'NOT-CONFIRMED', 'CAUGHT' if d['caught'] else 'MISSED', 'target' if d['caught_by_target_property'] else '', {k:v[:2] for k,v in d['checks_fired'].items()})
except Exception as e: print('ERR', t[-600:])
"
  fi
}
if [ -n "$1" ]; then one "$1" "$2"; exit 0; fi
for i in 01 02 03 04 05 06 07 08 09 10 11 12 13 14 15 16 17 18; do for v in A; do echo "$i $v"; done; done | xargs -P 4 -L 1 sh tools/eval_round12.sh
