#!/usr/bin/env python3
"""Checker validation (not the deciding step): behaviour-preserving refactorings written by independent sub-agents
(benign/*/patch.diff) must not raise any alarm.  Each patch is applied to a scratch copy of /repo (outside /repo and
/verif), all 18 checks are run against the copy (thorough tier: every feature configuration), and the copy is removed.

usage: tools/benign_check.py [name-substring ...] [--quick] [--add <patch.diff> <name> [--test]]
  --add   copy a new patch into benign/<name>/ (with --test: also run the repository's test-suite on the patched copy)
"""
import glob
import json
import os
import shutil
import subprocess
import sys
import tempfile
from concurrent.futures import ThreadPoolExecutor

HERE = os.path.dirname(os.path.dirname(os.path.abspath(__file__)))
BEN = os.path.join(HERE, "benign")


def scratch(patch):
    work = tempfile.mkdtemp(prefix="absy-benign-")
    dst = os.path.join(work, "repo")
    shutil.copytree("/repo", dst, ignore=shutil.ignore_patterns("target", ".git"))
    p = subprocess.run(["patch", "-p1", "-s", "-i", patch], cwd=dst, stdout=subprocess.PIPE, stderr=subprocess.STDOUT, text=True)
    return work, dst, (None if p.returncode == 0 else p.stdout[-300:])


def one(args):
    d, tier = args
    name = os.path.basename(d)
    work, dst, err = scratch(os.path.join(d, "patch.diff"))
    try:
        if err:
            return name, None, "patch does not apply: " + err
        fired = {}
        for i in range(1, 19):
            pid = "C%02d" % i
            env = dict(os.environ, ABSY_REPO=dst, ABSY_EVIDENCE_DIR=os.path.join(work, "ev"))
            r = subprocess.run([os.path.join(HERE, "check"), pid, "--tier", tier], env=env, stdout=subprocess.PIPE, stderr=subprocess.STDOUT, text=True)
            if r.returncode != 0:
                keys = []
                for line in r.stdout.splitlines():
                    if line.startswith("VIOLATION"):
                        try:
                            keys.append(json.load(open(line.split("replay=", 1)[1].strip()))["key"])
                        except Exception:
                            keys.append(line)
                if "does not type-check" in r.stdout or "fact extraction failed" in r.stdout:
                    keys.append("NOCOMPILE: " + r.stdout[-400:])
                fired[pid] = keys or [r.stdout[-300:]]
        return name, fired, None
    finally:
        shutil.rmtree(work, ignore_errors=True)


def add(patch, name, run_tests):
    d = os.path.join(BEN, name)
    os.makedirs(d, exist_ok=True)
    shutil.copy(patch, os.path.join(d, "patch.diff"))
    notes = os.path.join(os.path.dirname(patch), "notes.md")
    if os.path.exists(notes):
        shutil.copy(notes, os.path.join(d, "notes.md"))
    meta = {"name": name, "source": "independent sub-agent asked for a behaviour-preserving refactoring (given only the repository worktree)"}
    if run_tests:
        work, dst, err = scratch(os.path.join(d, "patch.diff"))
        try:
            if err:
                meta["tests"] = "patch does not apply: " + err
            else:
                cmd = "cargo test --workspace --no-fail-fast --offline"
                env = dict(os.environ, CARGO_TARGET_DIR=os.path.join(work, "target"), CARGO_NET_OFFLINE="true")
                r = subprocess.run(cmd, shell=True, cwd=dst, env=env, stdout=subprocess.PIPE, stderr=subprocess.STDOUT, text=True)
                import re
                passed = sum(int(x) for x in re.findall(r"test result: \w+\. (\d+) passed", r.stdout))
                failed = sum(int(x) for x in re.findall(r"(\d+) failed", r.stdout))
                meta["tests"] = {"rc": r.returncode, "passed": passed, "failed": failed}
        finally:
            shutil.rmtree(work, ignore_errors=True)
    json.dump(meta, open(os.path.join(d, "meta.json"), "w"), indent=1)
    print("added", name, meta.get("tests"))


def main():
    a = sys.argv[1:]
    if a and a[0] == "--add":
        add(a[1], a[2], "--test" in a)
        a = [a[2]]
    tier = "quick" if "--quick" in a else "thorough"
    pats = [x for x in a if not x.startswith("--")]
    dirs = sorted(d for d in glob.glob(os.path.join(BEN, "*")) if os.path.exists(os.path.join(d, "patch.diff")))
    if pats:
        dirs = [d for d in dirs if any(p in os.path.basename(d) for p in pats)]
    with ThreadPoolExecutor(max_workers=6) as ex:
        res = list(ex.map(one, [(d, tier) for d in dirs]))
    bad = 0
    summary = {}
    for name, fired, err in res:
        if err:
            print("%-14s ERROR %s" % (name, err))
            bad += 1
            continue
        if fired:
            bad += 1
            print("%-14s FALSE-ALARM %s" % (name, json.dumps(fired)[:1500]))
        else:
            print("%-14s SILENT" % name)
        summary[name] = {"silent": not fired, "fired": fired}
    if not pats:
        json.dump(summary, open(os.path.join(BEN, "SUMMARY.json"), "w"), indent=1)
    print("benign: %d refactorings, %d silent, %d problem(s) [%s tier]" % (len(res), sum(1 for n, f, e in res if not e and not f), bad, tier))
    return 1 if bad else 0


if __name__ == "__main__":
    sys.exit(main())
