#!/usr/bin/env python3
"""Write rules/golden/baseline_functions.json: the ids of every function of the lib, over all feature configurations,
of the tree given as argument (a worktree of /repo's committed HEAD).  Never run by a registered command.
usage: tools/gen_baseline.py <repo-dir>"""
import json
import os
import sys

HERE = os.path.dirname(os.path.dirname(os.path.abspath(__file__)))
sys.path.insert(0, HERE)
os.environ["ABSY_REPO"] = sys.argv[1]
from rules import extract  # noqa: E402

per = {}
for cfg in extract.CONFIGS:
    facts, meta = extract.extract(cfg, repo=sys.argv[1])
    d = {}
    for fn in facts["abyssiniandb"]["functions"]:
        if fn["kind"] in ("Fn", "AssocFn"):
            names = [fn["locals"][i].get("name") for i in range(1, fn["arg_count"] + 1)] if len(fn["locals"]) > fn["arg_count"] else []
            d[fn["id"]] = [fn.get("impl_self_adt"), fn.get("impl_trait"), fn.get("inputs", []), fn.get("output", ""), names]
    per[cfg] = d
out = os.path.join(HERE, "rules", "golden", "baseline_functions.json")
json.dump({"source": "git worktree of /repo HEAD", "configs": per}, open(out, "w"), indent=0, sort_keys=True)
print({k: len(v) for k, v in per.items()}, "->", out)
