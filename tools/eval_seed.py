#!/usr/bin/env python3
"""Confirm an independently written breaking change and run the checks against it.

usage: tools/eval_seed.py <out-dir> <name>      e.g. tools/eval_seed.py /tmp/out-C03 C03-a
<out-dir> holds PROPERTY.txt, patch.diff, demo_*.rs, notes.md.  The change is confirmed in a scratch worktree of /repo
(applies, 55 baseline tests pass, demo fails with it and passes without it), then every check is run against the
changed tree (ABSY_REPO).  Result goes to /verif/seeded/<name>/ (patch.diff, demo, meta.json).  /repo is never modified.
"""
import glob
import json
import os
import re
import shutil
import subprocess
import sys
import tempfile

HERE = os.path.dirname(os.path.dirname(os.path.abspath(__file__)))


def run(cmd, cwd=None, env=None, timeout=1800):
    p = subprocess.run(cmd, cwd=cwd, env=env, stdout=subprocess.PIPE, stderr=subprocess.STDOUT, text=True, timeout=timeout)
    return p.returncode, p.stdout


def main():
    out, name = sys.argv[1], sys.argv[2]
    pf = os.path.join(out, "PROPERTY.txt")
    if not os.path.exists(pf):
        pf = os.path.join(os.path.dirname(out.rstrip("/")), "PROPERTY.txt")
    prop = re.search(r"ID: (C\d+)", open(pf).read()).group(1)
    patch = os.path.join(out, "patch.diff")
    demos = glob.glob(os.path.join(out, "demo_*.rs"))
    meta = {"name": name, "breaks_property": prop, "source": "independent sub-agent given only the property text and a scratch worktree"}
    if not os.path.exists(patch) or not demos:
        print("missing patch.diff or demo in", out)
        return 2
    wt = tempfile.mkdtemp(prefix="seedchk-")
    os.rmdir(wt)
    try:
        run(["git", "-C", "/repo", "worktree", "add", "-f", wt, "HEAD"])
        shutil.copy("/repo/Cargo.lock", wt)
        env = dict(os.environ, CARGO_TARGET_DIR=os.path.join(wt, "target"), CARGO_NET_OFFLINE="true")
        rc, o = run(["git", "apply", patch], cwd=wt)
        if rc != 0:
            rc, o = run(["git", "apply", "--3way", patch], cwd=wt)
        meta["applies"] = rc == 0
        if rc != 0:
            print("patch does not apply:", o[-800:])
            meta["apply_output"] = o[-800:]
            return finish(meta, out, name, patch, demos)
        rc, o = run(["cargo", "test", "--workspace", "--no-fail-fast", "--offline"], cwd=wt, env=env)
        passed = sum(int(m.group(1)) for m in re.finditer(r"test result: \w+\. (\d+) passed", o))
        failed = sum(int(m.group(1)) for m in re.finditer(r"(\d+) failed", o))
        meta["baseline_with_change"] = {"rc": rc, "passed": passed, "failed": failed}
        demo = demos[0]
        tname = os.path.basename(demo)[:-3]
        # a change that only manifests under a non-default feature set: FEATURES.txt holds the cargo flags of the demo
        flags = []
        ff = os.path.join(out, "FEATURES.txt")
        if os.path.exists(ff):
            flags = open(ff).read().split()
            meta["demo_flags"] = " ".join(flags)
        shutil.copy(demo, os.path.join(wt, "tests", os.path.basename(demo)))
        rc1, o1 = run(["timeout", "600", "cargo", "test", "--offline", "--test", tname] + flags, cwd=wt, env=env)
        meta["demo_with_change"] = {"rc": rc1, "tail": o1[-600:]}
        run(["git", "checkout", "--", "src"], cwd=wt)
        rc2, o2 = run(["timeout", "600", "cargo", "test", "--offline", "--test", tname] + flags, cwd=wt, env=env)
        meta["demo_without_change"] = {"rc": rc2, "tail": o2[-300:]}
        meta["confirmed"] = bool(rc == 0 and failed == 0 and passed >= 55 and rc1 != 0 and rc2 == 0)
        run(["git", "apply", patch], cwd=wt)
        os.remove(os.path.join(wt, "tests", os.path.basename(demo)))
        fired = {}
        ev = os.path.join(wt, "evidence")
        for i in range(1, 19):
            pid = "C%02d" % i
            e2 = dict(os.environ, ABSY_REPO=wt, ABSY_EVIDENCE_DIR=ev)
            rc3, o3 = run([os.path.join(HERE, "check"), pid, "--tier", "thorough" if flags else "quick"], env=e2)
            keys = []
            for line in o3.splitlines():
                if line.startswith("VIOLATION"):
                    rp = line.split("replay=", 1)[1].strip()
                    try:
                        keys.append(json.load(open(rp))["key"])
                    except Exception:
                        keys.append(rp)
            if rc3 != 0:
                fired[pid] = keys
        meta["checks_fired"] = fired
        meta["caught_by_target_property"] = prop in fired
        meta["caught"] = bool(fired)
        print(json.dumps({k: meta[k] for k in ("name", "breaks_property", "confirmed", "caught", "caught_by_target_property", "checks_fired")}, indent=1))
    finally:
        run(["git", "-C", "/repo", "worktree", "remove", "--force", wt])
        shutil.rmtree(wt, ignore_errors=True)
    return finish(meta, out, name, patch, demos)


def finish(meta, out, name, patch, demos):
    d = os.path.join(HERE, "seeded", name)
    os.makedirs(d, exist_ok=True)
    shutil.copy(patch, os.path.join(d, "patch.diff"))
    for x in demos:
        shutil.copy(x, d)
    if os.path.exists(os.path.join(out, "notes.md")):
        shutil.copy(os.path.join(out, "notes.md"), d)
        meta["needs_to_manifest"] = open(os.path.join(out, "notes.md")).read()[:1500]
    meta["ran"] = ["git apply patch.diff in a scratch worktree of /repo HEAD", "cargo test --workspace --no-fail-fast --offline (baseline with change)",
                   "cargo test --offline --test demo (with change: must fail; without: must pass)", "./check C01..C18 --tier quick with ABSY_REPO=<worktree>"]
    json.dump(meta, open(os.path.join(d, "meta.json"), "w"), indent=1)
    return 0


if __name__ == "__main__":
    sys.exit(main())
