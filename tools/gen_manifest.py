#!/usr/bin/env python3
"""Regenerate MANIFEST.json from the rule modules that exist (keeps it valid at all times)."""
import importlib
import json
import os
import subprocess
import sys

HERE = os.path.dirname(os.path.dirname(os.path.abspath(__file__)))
sys.path.insert(0, HERE)
props = [json.loads(l) for l in open(os.path.join(HERE, "properties.jsonl"))]
checks, na, served = [], [], []
for p in props:
    pid = p["id"]
    try:
        mod = importlib.import_module("rules." + pid.lower())
    except ModuleNotFoundError:
        na.append({"property_id": pid, "reason": "check not built yet (in progress); see DESIGN.md section 4 for the planned clauses"})
        continue
    served.append(pid)
    checks.append({
        "property_id": pid,
        "quick_cmd": "./check %s --tier quick" % pid,
        "thorough_cmd": "./check %s --tier thorough" % pid,
        "evidence_file": "/verif/evidence/%s.json" % pid,
        "replay_cmd_template": "cat {path}",
        "engine": "absy-static",
        "level_claimed": {
            "category": "other",
            "text": "static analysis over rustc MIR: decides the listed structural necessary conditions of the property for every "
                    "input/history (they are facts about the program text), not the behaviour itself. " + mod.EXPLANATION,
            "design_ref": "DESIGN.md section 4, " + pid,
        },
        "level_note": "NOT decided: " + mod.NOT_DECIDED + " Trusted: rustc type checker / MIR construction / const evaluation, the fact "
                      "extractor in /verif/driver, the Python rule engine including the program normalisation applied before the rules "
                      "(release view without debug_assert code, inlining of helpers that are new w.r.t. the committed baseline, "
                      "desugaring of std combinators over local closures; DESIGN.md 2.8), the hand-confirmed role and allow-list tables. Assumes: "
                      + "; ".join(mod.ASSUMPTIONS),
        "technique": getattr(mod, "TECHNIQUE", "custom MIR-level static analysis (rustc_private fact extractor + repository-specific rules: "
                                                "effect pairing over success paths, who-may-write, error discipline, origin tracing, constant tables, format "
                                                "fingerprint) evaluated on /repo's current tree after a behaviour-preserving normalisation of the MIR"),
    })
commits = []
m = {
    "version": 1,
    "setup_cmd": "./setup.sh",
    "hooks": {
        "guard": "abyssiniandb_verif",
        "enable": "none needed: the checks read the type-checked program (MIR) of /repo's working tree; no hooks are compiled into /repo",
        "baseline_off_cmd": "cd /repo && cargo test --workspace --no-fail-fast --offline",
        "source_commits": commits,
        "add_only": True,
    },
    "engines": [{
        "name": "absy-static",
        "path": "/verif/check",
        "serves_properties": served,
        "kind_free_text": "rustc_private MIR fact extractor (driver/) injected with RUSTC_WRAPPER under cargo +nightly check, plus a "
                          "Python rule engine (rules/) with per-property rule sets; nothing of abyssiniandb is executed",
    }],
    "checks": checks,
    "notes": "Every check is static (see DESIGN.md). Genuine defects found on the pinned tree are either repaired by `fix:` commits in /repo "
             "or listed in known_findings.json (exact keys).",
    "not_applicable": na,
}
json.dump(m, open(os.path.join(HERE, "MANIFEST.json"), "w"), indent=1)
print("MANIFEST: %d checks, %d not yet claimed" % (len(checks), len(na)))
