#!/usr/bin/env python3
"""Re-run every check against every seeded change (seeded/*/patch.diff) and record which checks catch which change.
The seeded changes were confirmed once by tools/eval_seed.py (compile, baseline tests pass, demo fails/passes); this
script only re-evaluates detection after the rules change.  Scratch copies live under $TMPDIR and are removed."""
import glob
import json
import os
import shutil
import subprocess
import sys
import tempfile
from concurrent.futures import ThreadPoolExecutor

HERE = os.path.dirname(os.path.dirname(os.path.abspath(__file__)))


def one(d):
    name = os.path.basename(d)
    meta = json.load(open(os.path.join(d, "meta.json")))
    work = tempfile.mkdtemp(prefix="absy-seed-")
    try:
        dst = os.path.join(work, "repo")
        shutil.copytree("/repo", dst, ignore=shutil.ignore_patterns("target", ".git"))
        p = subprocess.run(["patch", "-p1", "-s", "-i", os.path.join(d, "patch.diff")], cwd=dst, stdout=subprocess.PIPE, stderr=subprocess.STDOUT, text=True)
        if p.returncode != 0:
            return name, meta["breaks_property"], None, "patch does not apply: " + p.stdout[-200:]
        fired = {}
        for i in range(1, 19):
            pid = "C%02d" % i
            env = dict(os.environ, ABSY_REPO=dst, ABSY_EVIDENCE_DIR=os.path.join(work, "ev"))
            # changes that only manifest under a non-default feature set are evaluated with the thorough tier (all configurations)
            r = subprocess.run([os.path.join(HERE, "check"), pid, "--tier", "thorough" if meta.get("demo_flags") else "quick"], env=env, stdout=subprocess.PIPE, stderr=subprocess.STDOUT, text=True)
            if r.returncode != 0:
                keys = []
                for line in r.stdout.splitlines():
                    if line.startswith("VIOLATION"):
                        try:
                            keys.append(json.load(open(line.split("replay=", 1)[1].strip()))["key"])
                        except Exception:
                            pass
                fired[pid] = keys
        return name, meta["breaks_property"], fired, None
    finally:
        shutil.rmtree(work, ignore_errors=True)


def main():
    dirs = sorted(d for d in glob.glob(os.path.join(HERE, "seeded", "*")) if os.path.exists(os.path.join(d, "meta.json")))
    with ThreadPoolExecutor(max_workers=8) as ex:
        res = list(ex.map(one, dirs))
    summary = {}
    bad = 0
    for name, prop, fired, err in res:
        if fired is None:
            print("%-8s %s ERROR %s" % (name, prop, err))
            bad += 1
            continue
        tgt = prop in fired
        engine = any(any("/engine/" in k for k in v) for v in fired.values())
        print("%-8s breaks %s  %s %s  by %s" % (name, prop, "CAUGHT" if fired else "MISSED", "(target)" if tgt else "", {k: v[:2] for k, v in fired.items()}))
        declined = json.load(open(os.path.join(HERE, "seeded", name, "meta.json"))).get("declined")
        if (not fired and not declined) or engine:
            bad += 1
        if not fired and declined:
            print("         declined: " + declined[:160])
        summary[name] = {"breaks_property": prop, "caught": bool(fired), "caught_by_target_property": tgt, "checks_fired": fired}
        m = json.load(open(os.path.join(HERE, "seeded", name, "meta.json")))
        m.update(summary[name])
        json.dump(m, open(os.path.join(HERE, "seeded", name, "meta.json"), "w"), indent=1)
    json.dump(summary, open(os.path.join(HERE, "seeded", "SUMMARY.json"), "w"), indent=1)
    n = len(summary)
    print("seeded: %d changes, %d caught, %d caught by the targeted property's own check, %d declined (documented miss), %d problem(s)"
          % (n, sum(v["caught"] for v in summary.values()), sum(v["caught_by_target_property"] for v in summary.values()),
             sum(1 for v in summary.values() if not v["caught"]) - bad if bad <= sum(1 for v in summary.values() if not v["caught"]) else 0, bad))
    return 1 if bad else 0


if __name__ == "__main__":
    sys.exit(main())
