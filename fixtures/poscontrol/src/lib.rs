//! Positive controls for the zero-count rules of /verif: one planted bad shape per rule.
//! This crate is only ever type-checked by the fact extractor; it is never run.
#![allow(dead_code, clippy::all)]
use std::collections::HashMap;
use std::io::Write;

pub fn destructive_create(p: &std::path::Path) -> std::io::Result<()> {
    let mut f = std::fs::File::create(p)?; // truncates
    f.write_all(b"x")
}
pub fn destructive_remove(p: &std::path::Path) -> std::io::Result<()> {
    std::fs::remove_file(p)
}
pub fn leak_forget(v: Vec<u8>) {
    std::mem::forget(v)
}
pub fn leak_exit() {
    std::process::exit(1)
}
pub fn nondet_time() -> u64 {
    std::time::SystemTime::now().duration_since(std::time::UNIX_EPOCH).map(|d| d.as_secs()).unwrap_or(0)
}
pub fn nondet_pid() -> u32 {
    std::process::id()
}
pub fn nondet_env() -> Option<String> {
    std::env::var("HOME").ok()
}
pub fn nondet_random_state() -> u64 {
    use std::hash::{BuildHasher, Hasher};
    let s = std::collections::hash_map::RandomState::new();
    let mut h = s.build_hasher();
    h.write_u64(1);
    h.finish()
}
pub fn nondet_addr(x: &u8) -> usize {
    x as *const u8 as usize
}
pub fn hash_iteration_unsorted(m: &HashMap<u64, u64>, out: &mut Vec<u64>) {
    for k in m.keys() {
        out.push(*k);
    }
}
pub fn uninit_set_len(n: usize) -> Vec<u8> {
    let mut v: Vec<u8> = Vec::with_capacity(n);
    unsafe { v.set_len(n) };
    v
}
pub fn dropped_io_result(f: &mut std::fs::File) {
    let _ = f.write_all(b"x");
}
pub fn swallowed_io_result(f: &mut std::fs::File) -> bool {
    f.flush().is_ok()
}
pub fn unwrapped_io_result(f: &mut std::fs::File) {
    f.flush().unwrap()
}
pub fn unguarded_sub(a: u64, b: u64) -> u64 {
    a - b
}
pub fn guarded_sub(a: u64, b: u64) -> u64 {
    if a >= b {
        a - b
    } else {
        0
    }
}
#[derive(Clone, Copy, PartialEq, PartialOrd)]
pub struct Offset<T> {
    val: u64,
    _p: std::marker::PhantomData<T>,
}
pub fn orders_offsets(a: Offset<u8>, b: Offset<u8>) -> bool {
    a < b
}
pub fn fresh_error(x: u32) -> std::io::Result<u32> {
    if x == 0 {
        return Err(std::io::Error::new(std::io::ErrorKind::InvalidData, "zero is on the free list"));
    }
    Ok(x)
}
pub fn abort_point(x: u32) -> u32 {
    if x == 7 {
        unimplemented!("seven");
    }
    x
}
