"""C08 - internal record relocation and chain relinking are invisible."""
from .model import short
from .roles import Roles, role_effects, INNER, ITERMUT
from .util import (calls_to, origins, where, is_call_to, lookup_split, region_dominated, bool_switches, diverges,
                   reachable_fns, macro_names, line_of, find_bool_split)

EXPLANATION = (
    "(1) Give-up-point inventory (K7b): every diverging call that originates from panic!/unimplemented!/todo!/unreachable! "
    "(assert!/debug_assert! state invariants and are out of scope) in the call closure of put/delete/get/includes_key, the "
    "iterators and the FileDb::db_map_* constructors must be on the triaged table (capacity 0 is documented; the five "
    "'Cannot create db_maps' panics follow a successful registry insert). (2) Re-link rule (K1): the offset a key record "
    "has after a rewrite (overwrite of its value link, unlink of its successor) must be compared with its old offset, and "
    "the 'moved' outcome must not diverge and must reach a re-linking role (bucket-head write or predecessor rewrite); "
    "the same for the overwrite helper's moved value record (checked under C05).")
NOT_DECIDED = ("that every other entry keeps its value and the affected entry ends with exactly the new value (a state-space "
               "property); panics raised inside std or by arithmetic (unsigned subtraction is checked under C07).")
ASSUMPTIONS = ["macro provenance of a call is taken from rustc's expansion backtrace of the call's span"]

OBJSAFE = "abyssiniandb::DbXxxObjectSafe"
ABORT_MACROS = {"panic", "unimplemented", "todo", "unreachable"}
ASSERT_MACROS = {"assert", "assert_eq", "assert_ne", "debug_assert", "debug_assert_eq", "debug_assert_ne"}

# (short function name, macro) -> reason
TRIAGED = {
    ("capacity_to_buckets_size", "panic"): "documented and tested behaviour for HashBucketsParam::Capacity(0)",
    ("db_map_string_with_params", "panic"): "infeasible: follows a successful insert into the same registry",
    ("db_map_bytes_with_params", "panic"): "infeasible: follows a successful insert into the same registry",
    ("db_map_i64_with_params", "panic"): "infeasible: follows a successful insert into the same registry",
    ("db_map_u64_with_params", "panic"): "infeasible: follows a successful insert into the same registry",
    ("db_map_vu64_with_params", "panic"): "infeasible: follows a successful insert into the same registry",
}
# additional entries that only exist under the test-only `abyssiniandb_debug` feature (checked narrowing conversions)
TRIAGED_DEBUG_FEATURE = {
    ("read_vu64_u32", "panic"): "abyssiniandb_debug (test configuration): checked u64 -> u32 narrowing of a decoded field",
    ("sub", "panic"): "abyssiniandb_debug (test configuration): checked narrowing of an offset difference",
}
KEYOFF = "abyssiniandb::filedb::inner::semtype::Offset<abyssiniandb::filedb::inner::semtype::Piece<abyssiniandb::filedb::inner::semtype::Key>>"


def outer_macro(t):
    names = [n.rsplit("::", 1)[-1] for n in macro_names(t) if not n.startswith("desugar")]
    for n in reversed(names):
        if n in ABORT_MACROS or n in ASSERT_MACROS:
            return n
    return names[-1] if names else None


def data_path_roots(prog):
    roots = []
    for m in ("put_kt", "del_kt", "get_kt", "includes_key_kt"):
        roots += prog.find(name=m, self_adt=INNER, trait=OBJSAFE)
    for ty in ("DbXxxIterMut", "DbXxxIter", "DbXxxIntoIter", "DbXxxKeys", "DbXxxValues"):
        adt = "abyssiniandb::filedb::inner::dbxxx::" + ty
        roots += [f for f in prog.fns.values() if f.impl_self_adt == adt and f.name in ("next", "new", "size_hint")]
    roots += [f for f in prog.fns.values() if f.impl_self_adt == "abyssiniandb::filedb::FileDb" and f.name.startswith("db_map_")]
    roots += prog.find(name="open", self_adt="abyssiniandb::filedb::FileDb")
    return roots


def check(ctx):
    prog = ctx.prog
    R = Roles(prog)
    roots = data_path_roots(prog)
    ctx.floor("abort-inventory", "data-path root functions", len(roots), 25)
    closure = reachable_fns(prog, roots, crates=("abyssiniandb",))
    found = {}
    n_div = 0
    triaged = dict(TRIAGED)
    if "abyssiniandb_debug" in prog.features.get("abyssiniandb", []):
        triaged.update(TRIAGED_DEBUG_FEATURE)
    for fn in closure.values():
        for b, t in fn.calls():
            if t["target"] is not None:
                continue
            n_div += 1
            m = outer_macro(t)
            if m in ABORT_MACROS:
                owner = fn
                while owner.kind == "Closure" and owner.parent in prog.fns:
                    owner = prog.fns[owner.parent]
                found.setdefault((owner.name, m), []).append((fn, b))
    ctx.floor("abort-inventory", "diverging call sites examined", n_div, 40)
    from . import poscontrol
    pp = poscontrol.prog()
    seen = {outer_macro(t) for f in pp.fns.values() if f.name == "abort_point" for b, t in f.calls() if t["target"] is None}
    ctx.check("unimplemented" in seen, "positive-control", "abort-macro", "the give-up-point detector does not see the planted unimplemented!() in the fixture (%s)" % sorted(x for x in seen if x))
    for (name, m), sites in sorted(found.items()):
        fn, b = sites[0]
        ctx.touch(fn)
        if (name, m) in triaged:
            ctx.ok("abort", "%s:%s" % (name, m), "triaged: " + triaged[(name, m)])
        else:
            ctx.fail("abort", "%s:%s" % (name, m),
                     "%s contains a %s!() give-up point reachable from the data-path API: the operation aborts instead of completing"
                     % (fn.id, m), where="; ".join(where(f, bb) for f, bb in sites))
    for key in TRIAGED:
        if key not in found:
            ctx.note("triaged abort %s:%s no longer present" % key)
    # the five registry panics really follow a successful insert
    for name, m in TRIAGED:
        if not name.startswith("db_map_"):
            continue
        for fn, b in found.get((name, m), []):
            creators = [bb for bb, t in fn.calls() if (t.get("callee") or "").rsplit("::", 1)[-1].startswith("create_db_map")]
            ctx.check(bool(creators) and all(fn.dominates(c, b) for c in creators), "abort", "%s:after-create" % name,
                      "the 'Cannot create db_maps' panic in %s is not dominated by the successful creation call" % name, where=where(fn, b))
    ctx.sample({"closure_functions": len(closure), "diverging_sites": n_div, "abort_macros_found": sorted("%s:%s" % k for k in found)})

    # ---- (2) moved key record is re-linked -----------------------------------------------------
    lookup = R.need("LOOKUP")
    put = prog.find(name="put_kt", self_adt=INNER, trait=OBJSAFE)[0]
    dele = prog.find(name="del_kt", self_adt=INNER, trait=OBJSAFE)[0]
    eff = role_effects(prog, R, ["HEAD_WRITE", "KEY_REWRITE"])
    for fn, producer, what in ((put, "OVERWRITE", "put_kt:overwrite"), (dele, "KEY_REWRITE", "del_kt:predecessor")):
        ctx.touch(fn)
        prod = R.need(producer)
        sites = calls_to(prog, fn, target_fn=prod)
        if not ctx.check(len(sites) >= 1, "relink", what + ":site", "no call of %s in %s" % (producer, fn.name), where=where(fn)):
            continue
        # comparisons of key offsets where one side originates from the producer's result
        cmps = []
        for sw in bool_switches(prog, fn):
            for o in sw["cond"]:
                if o.kind == "call" and o.data.get("callee") in ("core::cmp::PartialEq::ne", "core::cmp::PartialEq::eq") \
                        and o.data.get("gargs") and o.data["gargs"][0] == KEYOFF:
                    sides = [origins(prog, fn, a, at=o.block) for a in o.data["args"]]
                    from_prod = [bool(s) and all(is_call_to(prog, fn, x, prod) for x in s) for s in sides]
                    from_lookup = [bool(s) and all(is_call_to(prog, fn, x, lookup) for x in s) for s in sides]
                    if any(from_prod) and any(from_lookup):
                        moved = sw["true"] if o.data["callee"].endswith("::ne") else sw["false"]
                        cmps.append((sw["block"], moved))
        if not ctx.check(len(cmps) >= 1, "relink", what + ":compared",
                         "the offset of the key record after %s is never compared with its previous offset: a moved record would be lost silently" % producer,
                         where=where(fn, sites[0][0])):
            continue
        for blk, moved in cmps:
            if diverges(fn, moved):
                ctx.note("%s: the moved-record arm diverges (reported by the abort inventory)" % what)
                continue
            relinks = [b for b in region_dominated(fn, moved) if eff.block_must(fn, b, eff.must) & {"HEAD_WRITE", "KEY_REWRITE"}]
            ctx.check(bool(relinks) and not fn.success_reach_return(moved, relinks), "relink", what + ":moved-arm-relinks",
                      "when the key record moves in %s the operation continues without re-linking it (bucket head / predecessor not rewritten)" % what,
                      where=where(fn, moved))
