"""C08 - internal record relocation and chain relinking are invisible."""
from .fields import pf, fq
from .model import short
from .roles import Roles, role_effects, INNER, ITERMUT
from .util import (calls_to, origins, where, is_call_to, lookup_split, region_dominated, bool_switches, diverges,
                   reachable_fns, macro_names, line_of, find_bool_split)

EXPLANATION = (
    "(1) Give-up-point inventory (K7b): every diverging call that originates from panic!/unimplemented!/todo!/unreachable! "
    "(assert!/debug_assert! state invariants and are out of scope) in the call closure of put/delete/get/includes_key, the "
    "iterators and the FileDb::db_map_* constructors must be on the triaged table (capacity 0 is documented; the five "
    "'Cannot create db_maps' panics follow a successful registry insert). (2) Re-link rule (K1): the offset a key record "
    "has after a rewrite (overwrite of its value link, unlink of its successor) must be compared with its old offset, and "
    "the 'moved' outcome must not diverge and must reach a re-linking role (bucket-head write or predecessor rewrite); "
    "the same for the overwrite helper's moved value record (checked under C05). A re-link helper satisfies its "
    "contract (bucket head of its hash argument when the predecessor is zero, else that record read, re-linked and "
    "rewritten; no success exit or further round without it). The map layer compares record offsets for identity only "
    "(no ordering). (3) Refusals: io::Error values constructed (not propagated) in functions reachable from the data "
    "path, the statistics, flush / sync and the provided trait methods are inventoried and triaged.")
NOT_DECIDED = ("that every other entry keeps its value and the affected entry ends with exactly the new value (a state-space "
               "property); panics raised inside std or by arithmetic (unsigned subtraction is checked under C07).")
ASSUMPTIONS = ["macro provenance of a call is taken from rustc's expansion backtrace of the call's span"]

OBJSAFE = "abyssiniandb::DbXxxObjectSafe"
ABORT_MACROS = {"panic", "unimplemented", "todo", "unreachable"}
ASSERT_MACROS = {"assert", "assert_eq", "assert_ne", "debug_assert", "debug_assert_eq", "debug_assert_ne"}

# (short function name, macro) -> reason
TRIAGED = {
    ("capacity_to_buckets_size", "panic"): "documented and tested behaviour for HashBucketsParam::Capacity(0)",
    ("header-check", "panic"): "an open-time header check refuses foreign files by panicking (C13); `assert!(c)` and `if !c { panic!() }` are the same thing",
    ("db_map_string_with_params", "panic"): "infeasible: follows a successful insert into the same registry",
    ("db_map_bytes_with_params", "panic"): "infeasible: follows a successful insert into the same registry",
    ("db_map_i64_with_params", "panic"): "infeasible: follows a successful insert into the same registry",
    ("db_map_u64_with_params", "panic"): "infeasible: follows a successful insert into the same registry",
    ("db_map_vu64_with_params", "panic"): "infeasible: follows a successful insert into the same registry",
}
# additional entries that only exist under the test-only `abyssiniandb_debug` feature (checked narrowing conversions)
TRIAGED_DEBUG_FEATURE = {
    ("read_vu64_u32", "panic"): "abyssiniandb_debug (test configuration): checked u64 -> u32 narrowing of a decoded field",
    ("sub", "panic"): "abyssiniandb_debug (test configuration): checked narrowing of an offset difference",
}
FRESH_ERRORS = {
    "read_and_decode_vu64": "translates the vu64 decoder's own error value into io::Error (no new condition)",
    "header-check": "a foreign / damaged header refused with Err instead of a panic: refused either way (C13)",
}
KEYOFF = "abyssiniandb::filedb::inner::semtype::Offset<abyssiniandb::filedb::inner::semtype::Piece<abyssiniandb::filedb::inner::semtype::Key>>"


def outer_macro(t):
    names = [n.rsplit("::", 1)[-1] for n in macro_names(t) if not n.startswith("desugar")]
    for n in reversed(names):
        if n in ABORT_MACROS or n in ASSERT_MACROS:
            return n
    return names[-1] if names else None


def data_path_roots(prog):
    roots = []
    for m in ("put_kt", "del_kt", "get_kt", "includes_key_kt"):
        roots += prog.find(name=m, self_adt=INNER, trait=OBJSAFE)
    for ty in ("DbXxxIterMut", "DbXxxIter", "DbXxxIntoIter", "DbXxxKeys", "DbXxxValues"):
        adt = "abyssiniandb::filedb::inner::dbxxx::" + ty
        roots += [f for f in prog.fns.values() if f.impl_self_adt == adt and f.name in ("next", "new", "size_hint")]
    roots += [f for f in prog.fns.values() if f.impl_self_adt == "abyssiniandb::filedb::FileDb" and f.name.startswith("db_map_")]
    roots += prog.find(name="open", self_adt="abyssiniandb::filedb::FileDb")
    return roots


def _check_own(ctx):
    prog = ctx.prog
    R = Roles(prog)
    roots = data_path_roots(prog)
    ctx.floor("abort-inventory", "data-path root functions", len(roots), 25)
    closure = reachable_fns(prog, roots, crates=("abyssiniandb",))
    found = {}
    n_div = 0
    # triage entries are keyed by the pinned tree's names: private functions are mapped back through their role
    role_name = {}
    for r_, canon_ in (("CAP2BUCKETS", "capacity_to_buckets_size"), ("HDR_CHECK_KEY", "header-check"), ("HDR_CHECK_VAL", "header-check"),
                       ("HDR_CHECK_HTX", "header-check")):
        f_ = R.get(r_)
        if f_ is not None:
            role_name[f_.id] = canon_
    triaged = dict(TRIAGED)
    if "abyssiniandb_debug" in prog.features.get("abyssiniandb", []):
        triaged.update(TRIAGED_DEBUG_FEATURE)
    for fn in closure.values():
        for b, t in fn.calls():
            if t["target"] is not None:
                continue
            n_div += 1
            m = outer_macro(t)
            if m in ABORT_MACROS:
                owner = fn
                while owner.kind == "Closure" and owner.parent in prog.fns:
                    owner = prog.fns[owner.parent]
                found.setdefault((role_name.get(owner.id, owner.name), m), []).append((fn, b))
    ctx.floor("abort-inventory", "diverging call sites examined", n_div, 10)
    from . import poscontrol
    pp = poscontrol.prog()
    seen = {outer_macro(t) for f in pp.fns.values() if f.name == "abort_point" for b, t in f.calls() if t["target"] is None}
    ctx.check("unimplemented" in seen, "positive-control", "abort-macro", "the give-up-point detector does not see the planted unimplemented!() in the fixture (%s)" % sorted(x for x in seen if x))
    for (name, m), sites in sorted(found.items()):
        fn, b = sites[0]
        ctx.touch(fn)
        if (name, m) in triaged:
            ctx.ok("abort", "%s:%s" % (name, m), "triaged: " + triaged[(name, m)])
        else:
            ctx.fail("abort", "%s:%s" % (name, m),
                     "%s contains a %s!() give-up point reachable from the data-path API: the operation aborts instead of completing"
                     % (fn.id, m), where="; ".join(where(f, bb) for f, bb in sites))
    for key in TRIAGED:
        if key not in found:
            ctx.note("triaged abort %s:%s no longer present" % key)
    # the five registry panics really follow a successful insert
    for name, m in TRIAGED:
        if not name.startswith("db_map_"):
            continue
        for fn, b in found.get((name, m), []):
            creators = [bb for bb, t in fn.calls() if (t.get("callee") or "").rsplit("::", 1)[-1].startswith("create_db_map")]
            ctx.check(bool(creators) and all(fn.dominates(c, b) for c in creators), "abort", "%s:after-create" % name,
                      "the 'Cannot create db_maps' panic in %s is not dominated by the successful creation call" % name, where=where(fn, b))
    ctx.sample({"closure_functions": len(closure), "diverging_sites": n_div, "abort_macros_found": sorted("%s:%s" % k for k in found)})
    # ---- (1b) fresh errors: the same inventory for `io::Error` values *constructed* (not propagated) on the data path.
    # A new one means some state or input that used to be served is now refused with Err.
    fresh = {}
    n_err_calls = 0
    # the refusal inventory also covers the read-only statistics, the flush / sync path and the provided (default)
    # methods of the public traits: a "sanity check" that returns Err there refuses a legitimate state just the same
    roots2 = list(roots)
    roots2 += [f for f in prog.fns.values() if f.crate == "abyssiniandb" and f.impl_self_adt == INNER and
               ((f.impl_trait or "").endswith(("CheckFileDbMap", "DbXxxBase")))]
    roots2 += [f for f in prog.fns.values() if f.crate == "abyssiniandb" and f.trait_default_of is not None]
    closure2 = reachable_fns(prog, roots2, crates=("abyssiniandb",))
    ctx.floor("refusal", "root functions (data path, statistics, flush / sync, provided trait methods)", len(roots2), 45)
    for fn in closure2.values():
        for b, t in fn.calls():
            if fn.is_cleanup(b):
                continue
            c = t.get("callee") or ""
            full = t.get("callee_full") or c
            ga = t.get("gargs") or []
            io_err = c.startswith(("std::io::Error::", "std::io::error::Error::"))
            is_ctor = io_err and c.rsplit("::", 1)[-1] in ("new", "other", "from_raw_os_error", "last_os_error", "new_const") \
                or (c in ("core::convert::From::from", "core::convert::Into::into") and ("io::Error" in full or "io::error::Error" in full) and any("ErrorKind" in g for g in ga))
            if io_err:
                n_err_calls += 1
            if is_ctor:
                owner = fn
                while owner.kind == "Closure" and owner.parent in prog.fns:
                    owner = prog.fns[owner.parent]
                fresh.setdefault(role_name.get(owner.id, owner.name), []).append((fn, b))
    for name, sites in sorted(fresh.items()):
        fn, b = sites[0]
        ctx.touch(fn)
        if name in FRESH_ERRORS:
            ctx.ok("refusal", name, "triaged: " + FRESH_ERRORS[name])
        else:
            ctx.fail("refusal", name, "%s constructs a new io::Error on the data path: a state or input that was served before is now refused" % fn.id,
                     where="; ".join(where(f, bb) for f, bb in sites))
    ctx.ok("refusal", "inventory", "%d io::Error constructor site(s) in %d functions reachable from %d roots (%d calls on io::Error seen)" % (sum(len(v) for v in fresh.values()), len(closure2), len(roots2), n_err_calls))
    pp_fresh = [1 for f in pp.fns.values() if f.name == "fresh_error" for b, t in f.calls() if (t.get("callee") or "").startswith(("std::io::Error::", "std::io::error::Error::"))]
    ctx.check(bool(pp_fresh), "positive-control", "fresh-error", "the fresh-error detector does not see the planted io::Error::new in the fixture")

    # ---- (2) moved key record is re-linked -----------------------------------------------------
    # Every rewrite of a key record (KEY_REWRITE) inside the map type can move the record.  Its resulting offset must
    # either be compared with the offset the record had (and the "moved" outcome must neither diverge nor continue
    # without re-linking), or be handed to the caller, who then has the same obligation.
    relink_ids = {R.need("HEAD_WRITE").id, R.need("KEY_REWRITE").id}

    def relink_label(p, f, t):
        return {"RELINK"} if any(x.id in relink_ids for x in p.targets(t, f)[0]) else ()
    eff = role_effects(prog, R, [], extra_call=relink_label)
    rewrite = R.need("KEY_REWRITE")
    todo = [(f, b, "KEY_REWRITE") for f, b in prog.callers().get(rewrite.id, []) if f.impl_self_adt == INNER]
    ctx.floor("relink", "key-record rewrite sites in the map type", len(todo), 2)
    seen_sites = set()
    n_cmp = 0
    moved_arms = []
    while todo:
        fn, site, what = todo.pop()
        if (fn.id, site) in seen_sites:
            continue
        seen_sites.add((fn.id, site))
        ctx.touch(fn)
        inst = "%s:%s@%s" % (fn.name, what, line_of(fn, site).rsplit(":", 1)[-1] if False else what)
        inst = "%s:%s" % (fn.name, what)
        cmps = []
        for sw in bool_switches(prog, fn):
            for o in sw["cond"]:
                if o.kind == "call" and o.data.get("callee") in ("core::cmp::PartialEq::ne", "core::cmp::PartialEq::eq") \
                        and o.data.get("gargs") and o.data["gargs"][0] == KEYOFF:
                    sides = [origins(prog, fn, a, at=o.block) for a in o.data["args"]]
                    if any(bool(sd) and all(x.kind == "call" and x.block == site for x in sd) for sd in sides):
                        moved = sw["true"] if o.data["callee"].endswith("::ne") else sw["false"]
                        cmps.append((sw["block"], moved))
        if cmps:
            n_cmp += 1
            for blk, moved in cmps:
                if diverges(fn, moved):
                    ctx.fail("relink", inst + ":moved-arm-diverges", "when the key record moves in %s the operation gives up (diverging arm)" % fn.name, where=where(fn, moved))
                    continue
                moved_arms.append((fn, moved, site))
                relinks = [b for b in range(len(fn.blocks)) if not fn.is_cleanup(b) and "RELINK" in eff.block_must(fn, b, eff.must)]
                ok = bool(relinks) and not fn.success_reach_return(moved, relinks)
                ctx.check(ok, "relink", inst + ":moved-arm-relinks",
                          "when the key record moves in %s the operation continues without re-linking it (neither the bucket head nor the predecessor is rewritten on some path)" % fn.name,
                          where=where(fn, moved))
            continue
        # not compared here: is the new offset handed to the caller?
        ret = tracer_place0(prog, fn)
        if any(x.kind == "call" and x.block == site for x in ret):
            callers = [(f, b) for f, b in prog.callers().get(fn.id, []) if f.crate == "abyssiniandb"]
            ctx.check(bool(callers), "relink", inst + ":returned", "%s returns the possibly-moved offset but has no caller" % fn.name, where=where(fn, site))
            for f, b in callers:
                todo.append((f, b, "%s()" % fn.name))
            continue
        ctx.fail("relink", inst + ":compared",
                 "the offset a key record has after being rewritten in %s is neither compared with its previous offset nor returned: if the record "
                 "moved, whatever pointed at it still points at the freed slot and the entry (and the rest of its chain) is lost" % fn.name, where=where(fn, site))
    ctx.floor("relink", "rewrite results compared with the old offset", n_cmp, 2)
    # between the move and the re-link the chain still points at the slot that was just freed: nothing on the moved arm
    # may *read through* the chain by key (the lookup compares the key bytes stored at every chain member, the freed
    # slot included); the predecessor is found by comparing offsets only
    from .util import reachable_fns as _rf
    lk, kb = R.need("LOOKUP"), R.need("KEY_BYTES_AT")
    for fn, moved, site in moved_arms:
        region = region_dominated(fn, moved)
        hit = None
        for b_ in sorted(region):
            t_ = fn.blocks[b_]["term"]
            if not t_ or t_["t"] != "call" or fn.is_cleanup(b_):
                continue
            tgs = prog.targets(t_, fn)[0]
            reach = _rf(prog, [x for x in tgs if x.crate == "abyssiniandb"], crates=("abyssiniandb",))
            if lk.id in reach or kb.id in reach or any(x.id in (lk.id, kb.id) for x in tgs):
                hit = b_
                break
        ctx.check(hit is None, "relink", "%s:moved-arm-walks-by-offset" % fn.name,
                  "after a key record has moved in %s, the chain is searched by key (lookup / stored-key comparison) while it still links to the freed slot" % fn.name,
                  where=where(fn, hit if hit is not None else moved))
    check_relink_values(ctx, prog, R, eff, moved_arms)
    check_offsets_unordered(ctx, prog)


ORDERING = ("core::cmp::PartialOrd::lt", "core::cmp::PartialOrd::le", "core::cmp::PartialOrd::gt", "core::cmp::PartialOrd::ge",
            "core::cmp::PartialOrd::partial_cmp", "core::cmp::Ord::cmp", "core::cmp::Ord::max", "core::cmp::Ord::min", "core::cmp::max", "core::cmp::min")


def _orders_offsets(t):
    return (t.get("callee") or "") in ORDERING and any("Offset<" in g for g in (t.get("gargs") or []))


def check_offsets_unordered(ctx, prog):
    """Position in a bucket chain and position in the file are unrelated: a freed slot in front of the file is re-used
    for the newest record.  The map layer (lookup, predecessor search, re-link, put / delete, iterators) may therefore
    compare record offsets for identity only; an ordering comparison there (`while offset > key_offset`, `if old < new`)
    encodes the belief "newer records lie behind older ones", which holds until the first slot is recycled."""
    from .roles import M_DBXXX
    bad = []
    n = 0
    for f in sorted(prog.fns.values(), key=lambda x: x.id):
        if f.crate != "abyssiniandb" or f.module != M_DBXXX:
            continue
        for b, t in f.calls():
            if f.is_cleanup(b):
                continue
            if (t.get("callee") or "").startswith("core::cmp::") and any("Offset<" in g for g in (t.get("gargs") or [])):
                n += 1
                if _orders_offsets(t):
                    bad.append((f, b, t))
    for f, b, t in bad:
        owner = f
        while owner.kind == "Closure" and owner.parent in prog.fns:
            owner = prog.fns[owner.parent]
        ctx.fail("relink", "%s:offsets-ordered" % owner.name,
                 "%s orders two record offsets with %s: chain order and file order are unrelated once a freed slot has been re-used"
                 % (owner.name, (t.get("callee") or "").rsplit("::", 1)[-1]), where=where(f, b))
    if not bad:
        ctx.ok("relink", "offsets-compared-for-identity-only", "%d comparisons of record offsets in the map layer, none of them an ordering" % n)
    ctx.floor("relink", "comparisons of record offsets in the map layer", n, 2)
    from . import poscontrol
    pp = poscontrol.prog()
    seen = [1 for g in pp.fns.values() if g.name == "orders_offsets" for b, t in g.calls() if _orders_offsets(t)]
    ctx.check(bool(seen), "positive-control", "offsets-ordered", "the ordering-comparison detector does not see the planted `a < b` on offsets in the fixture")


def check_relink_values(ctx, prog, R, eff, moved_arms):
    """What is stored as the new link must be the moved record's new offset: in a re-link helper called from a moved arm,
    every link store (bucket-head write argument, assignment to a key record's next link) originates from the helper's
    new-offset parameter or from a key rewrite's resulting offset; and the callers pass such an offset."""
    from .util import field_stores, region_dominated as rd
    rewrite, overwrite, head_write = R.need("KEY_REWRITE"), R.get("OVERWRITE"), R.need("HEAD_WRITE")

    def is_new_offset(fn, o):
        if o.kind != "call":
            return False
        tg = [x.id for x in prog.targets(o.data, fn)[0]]
        if rewrite.id in tg and o.proj[:1] == ("?ok",) and o.proj[-1].endswith(pf(prog, "KeyPiece", "offset")):
            return True
        if overwrite is not None and overwrite.id in tg and o.proj == ("?ok",):
            return True
        return False
    helpers = {}
    for fn, moved, site in moved_arms:
        for b in rd(fn, moved):
            t = fn.blocks[b]["term"]
            if t and t["t"] == "call":
                for x in prog.targets(t, fn)[0]:
                    if x.impl_self_adt == INNER and "RELINK" in eff.must.get(x.id, set()):
                        helpers.setdefault(x.id, []).append((fn, b, t))
    n = 0
    for hid, sites in helpers.items():
        h = prog.fns[hid]
        ctx.touch(h)
        link_vals = []
        for b, t in calls_to(prog, h, target_fn=head_write):
            link_vals.append((b, origins(prog, h, t["args"][2], at=b)))
        for f, b, s_ in field_stores(prog, pf(prog, "KeyPiece", "next")):
            if f.id == h.id:
                link_vals.append((b, origins(prog, h, s_["rhs"].get("a", {}), at=b)))
        if len(h.inputs) == 4:
            # the helper's whole contract (which record is re-linked, under which hash), not only the value stored
            from .relinkh import relink_contract
            n += 1
            ctx.check(relink_contract(prog, R, h) is not None, "relink", "%s:helper-contract" % h.name,
                      "%s does not make the link held at its predecessor argument (bucket head of its hash argument when zero, else "
                      "that record's next link, rewritten) point at its new-offset argument" % h.name, where=where(h))
        params = set()
        for b, os_ in link_vals:
            n += 1
            ok = bool(os_) and all((o.kind == "param" and not o.proj) or is_new_offset(h, o) for o in os_)
            params |= {o.data for o in os_ if o.kind == "param"}
            ctx.check(ok, "relink", "%s:link-is-new-offset" % h.name,
                      "%s stores a link that is not the moved record's new offset (%s): the chain would point at a freed slot" % (h.name, os_), where=where(h, b))
        for fn, b, t in sites:
            for pidx in params:
                a = origins(prog, fn, t["args"][pidx - 1], at=b)
                ctx.check(bool(a) and all(is_new_offset(fn, o) for o in a), "relink", "%s:passes-new-offset" % fn.name,
                          "%s does not pass the moved record's new offset to %s (%s)" % (fn.name, h.name, a), where=where(fn, b))
    # the predecessor of a moved record is searched under the offset the chain still holds (its old one): a search for the
    # *new* offset walks through the freed slot
    from .relinkh import finders as _finders, finder_offset_arg
    finders = [f for f in _finders(prog, R) if finder_offset_arg(f) is not None]
    for fd in finders:
        for caller, b in prog.callers().get(fd.id, []):
            t = caller.term(b)
            a = origins(prog, caller, t["args"][finder_offset_arg(fd)], at=b)
            n += 1
            ctx.check(bool(a) and not any(is_new_offset(caller, o) for o in a), "relink", "%s:searches-old-offset" % caller.name,
                      "%s looks for the record that links to a moved record's NEW offset (%s); nothing links to it yet, so the walk runs "
                      "through the slot that was just freed" % (caller.name, a), where=where(caller, b))
    # re-linking written inline in the moved arm (no helper): the same obligation on the arm's own link stores
    for fn, moved, site in moved_arms:
        reg = rd(fn, moved)
        vals = [(b, origins(prog, fn, t["args"][2], at=b)) for b, t in calls_to(prog, fn, target_fn=head_write) if b in reg]
        vals += [(b, origins(prog, fn, s_["rhs"].get("a", {}), at=b)) for f, b, s_ in field_stores(prog, pf(prog, "KeyPiece", "next")) if f.id == fn.id and b in reg]
        for b, os_ in vals:
            n += 1
            ctx.check(bool(os_) and all(is_new_offset(fn, o) for o in os_), "relink", "%s:inline-link-is-new-offset" % fn.name,
                      "%s re-links with something that is not the moved record's new offset (%s)" % (fn.name, os_), where=where(fn, b))
    ctx.floor("relink", "link stores on moved-record paths checked", n, 2)


def tracer_place0(prog, fn):
    from .util import tracer, leaf_origins
    return leaf_origins(prog, fn, {"k": "cp", "pl": {"l": 0, "p": []}})


def check(ctx):
    _check_own(ctx)
    from .engine import import_rules
    # chain relinking on delete / overwrite is this property's subject: adopt the link-origin rules
    import_rules(ctx, "c05", {"delete-links", "overwrite-links", "insert-links"})
    import_rules(ctx, "c06", {"writer-arms", "free-slot-field-position"})
    import_rules(ctx, "c09", {"sizer-covers-writer", "slot-honoured", "vu64-reader-consumes-encoded-length"})
    import_rules(ctx, "c01", {"op-wiring", "lookup-result"})
    # a relocated key record is read and written back through the key type's from_bytes / as_bytes: they must be byte-exact
    import_rules(ctx, "c10", {"byte-identity"})
