"""C09 - any key or value length fits its slot; neighbours are never overwritten."""
from .model import short, const_val
from .roles import Roles, role_effects, VARFILE
from .util import calls_to, origins, where, is_call_to, leaf_origins, tracer
from . import k7, tables

EXPLANATION = (
    "(1) Writer/sizer agreement (K4) for the key and the value record: every field the record writer emits after seeking "
    "to the record's offset (size field, length, raw payload, scaled offsets) has a summand in the size estimate with the "
    "same source and a compatible kind (vu64 codec <-> encoded_len(source), raw bytes <-> the length itself, fixed-width "
    "codec <-> its width, size field <-> encoded_len(ceil(payload/8))). (2) The slot is sized from that estimate and "
    "honoured: round-up argument is (size-field length + payload length) of the estimate, found by meaning not position, an allocated record gets the rounded size, the in-place arm "
    "keeps the old slot size (checked with C06's writer rules), and the record writer ends with a zero pad up to "
    "offset + size that is dominated by all field writes. (3) Size-class / free-list tables are sane. (4) Contract of "
    "the dependency's bounded small-buffer primitives (debug_assert on the buffer length in rabuf): payload-sized data "
    "must not be routed through them unless its origin is a fixed-size array or a dominating length guard exists. "
    "(5) The lib's own vu64 field reader consumes exactly decoded_len(first) bytes on every arm, and the helpers that step "
    "over a record's size field skip decoded_len(first) - 1 bytes, decided by that length itself.")
NOT_DECIDED = ("the arithmetic itself: that encoded_len, the round-up and the vu64 codec make the estimate an upper bound for "
               "all lengths and offset widths (a solver question); byte-for-byte read-back.")
ASSUMPTIONS = ["vu64::encoded_len(x) is the number of bytes encode_and_write_vu64(x) emits (dependency fact)",
               "an over-estimate (encoded_len of an unscaled offset for a scaled write) wastes space but cannot corrupt"]

RECS = [("key", "KEY_RECORD_WRITE", "KEY_SIZER", "KEY_WRITE_PIECE"), ("val", "VAL_RECORD_WRITE", "VAL_SIZER", "VAL_WRITE_PIECE")]
FIELD_WRITERS = {"W_PIECE_SIZE": "size", "W_KEY_LEN": "len", "W_VAL_LEN": "len", "W_PIECE_OFFSET": "offset"}
RAW_WRITERS = ("rabuf::SmallWrite::write_all_small", "std::io::Write::write_all")


def flatten_add(c, out=None):
    out = out if out is not None else []
    if c[0] == "bin" and c[1] == "Add":
        flatten_add(c[2], out)
        flatten_add(c[3], out)
    else:
        out.append(c)
    return out


def codec_of(prog, R, role):
    """'vu64' or the fixed byte width of a field writer, from the primitive it reaches."""
    fn = R.need(role)
    seen, stack = set(), [fn]
    while stack:
        f = stack.pop()
        if f.id in seen:
            continue
        seen.add(f.id)
        for b, t in f.calls():
            c = t.get("callee") or ""
            if c.endswith("WriteVu64::encode_and_write_vu64"):
                return "vu64"
            for nm, w in (("write_u64_le", 8), ("write_u32_le", 4), ("write_u16_le", 2), ("write_u8", 1)):
                if c == "rabuf::SmallWrite::" + nm:
                    return w
            for x in prog.targets(t, f)[0]:
                if x.crate == "abyssiniandb":
                    stack.append(x)
    return None


def sizer_components(prog, sizer):
    """The size estimate's result, by meaning instead of by position: {"S": (projection, canon)} the length of the size
    field (`encoded_len((payload + 7) / 8)` or a fixed width) and {"P": ...} the payload length (the component that is a
    sum of >= 2 terms).  Works for a tuple in any order and for a small struct.  None if not recognisable."""
    cn = k7.Canon(prog, sizer)
    rb = sizer.return_blocks()
    if not rb:
        return None
    os_ = tracer(prog, sizer).place({"l": 0, "p": []}, at=rb[0])
    aggs = [o for o in os_ if o.kind == "agg" and not o.proj]
    if len(aggs) != 1 or len(os_) != 1:
        return None
    a = aggs[0].data
    if a.get("agg") == "tuple":
        names = ["f:%d" % i for i in range(len(a["ops"]))]
    elif a.get("agg") == "adt" and a.get("fields"):
        names = ["f:%s.%s" % (a["adt"].rsplit("::", 1)[-1], f) for f in a["fields"]]
    else:
        return None
    comps = [(nm, cn.op(op, aggs[0].block)) for nm, op in zip(names, a["ops"])]
    P = [(nm, c) for nm, c in comps if len(flatten_add(c)) >= 2]
    if len(P) != 1:
        return None
    S = [(nm, c) for nm, c in comps if nm != P[0][0] and (c[0] == "c" or (c[0] == "call" and c[1].endswith("encoded_len") and c[2] and c[2][0][0] == "bin"))]
    if len(S) != 1:
        return None
    return {"S": S[0], "P": P[0]}


def _check_own(ctx):
    prog = ctx.prog
    from . import vu64dec
    vu64dec.check_vu64_decoder(ctx, prog)
    vu64dec.check_skip_helpers(ctx, prog)
    check_slot_end_exprs(ctx, prog)
    R = Roles(prog)
    n_fields = 0
    for kind, r_rec, r_sizer, r_writer in RECS:
        rec, sizer = R.need(r_rec), R.need(r_sizer)
        ctx.touch(rec, len(rec.blocks))
        ctx.touch(sizer, len(sizer.blocks))
        cn_w, cn_s = k7.Canon(prog, rec), k7.Canon(prog, sizer)
        # ---- the estimate: _0 = (size_field_len, payload_len, len)
        rb = sizer.return_blocks()
        at = rb[0] if rb else None
        t0 = tracer(prog, sizer)
        def comp(i):
            os_ = t0.place({"l": 0, "p": ["f:%d" % i]}, at=at)
            return cn_s.from_origins(os_, {"k": "cp", "pl": {"l": 0, "p": []}}, at, 0) if len(os_) == 1 else ("?",)
        sc = sizer_components(prog, sizer)
        size_field, payload = (sc["S"][1], sc["P"][1]) if sc else (comp(0), comp(1))
        summands = flatten_add(payload)
        ctx.check(payload[0] != "?" and len(summands) >= 2, "sizer-covers-writer", kind + ":estimate-shape",
                  "cannot read the %s size estimate as a sum (%s)" % (kind, k7.expr_str(payload)), where=where(sizer))
        # ---- the writer: field writes after the seek to self.offset
        seeks = calls_to(prog, rec, target_fn=R.need("SEEK_START"))
        ok_seek = len(seeks) == 1 and all(o.kind == "param" and o.data == 1 and o.proj and o.proj[-1].endswith(".offset") for o in origins(prog, rec, seeks[0][1]["args"][1], at=seeks[0][0]))
        ctx.check(ok_seek, "sizer-covers-writer", kind + ":starts-at-offset", "the %s record is not written starting at its own offset" % kind, where=where(rec))
        writes = []
        for b, t in rec.calls():
            tg, _ = prog.targets(t, rec)
            role = None
            for r in FIELD_WRITERS:
                f = R.get(r)
                if f and any(x.id == f.id for x in tg):
                    role = r
            if role:
                writes.append((b, role, cn_w.op(t["args"][1], b)))
            elif t.get("callee") in RAW_WRITERS:
                writes.append((b, "RAW", cn_w.op(t["args"][1], b)))
        writes.sort(key=lambda w: len(rec.dominators().get(w[0], ())))
        def matches(pred):
            return any(pred(sm) for sm in summands)
        def enc_of(src):
            return lambda sm: sm[0] == "call" and sm[1].endswith("encoded_len") and k7.same(_self_norm(sm[2][0]), _self_norm(src))
        for b, role, src in writes:
            n_fields += 1
            inst = "%s:%s(%s)" % (kind, role, k7.expr_str(src))
            if role == "W_PIECE_SIZE":
                # size field <-> encoded_len((payload + 7) / 8)   (or a fixed width)
                codec = codec_of(prog, R, role)
                if codec == "vu64":
                    ok = size_field[0] == "call" and size_field[1].endswith("encoded_len")
                    arg = size_field[2][0] if ok else None
                    ok = ok and arg[0] == "bin" and arg[1] == "Div" and arg[3] == ("c", 8) and arg[2][0] == "bin" and arg[2][1] == "Add" \
                        and arg[2][3] == ("c", 7) and k7.same(arg[2][2], payload)
                else:
                    ok = size_field == ("c", codec)
                ctx.check(ok, "sizer-covers-writer", inst, "the size-field term of the %s estimate (%s) does not cover the size field the writer emits" % (kind, k7.expr_str(size_field)), where=where(rec, b))
                continue
            codec = codec_of(prog, R, role) if role != "RAW" else "raw"
            if role == "RAW":
                # raw payload <-> its length
                ok = matches(lambda sm: k7.same(_self_norm(sm), _self_norm(("len", src))))
            elif codec == "vu64":
                ok = matches(enc_of(src)) or (role == "W_PIECE_OFFSET" and matches(enc_of(src)))
            else:
                ok = matches(lambda sm: sm == ("c", codec))
            ctx.check(ok, "sizer-covers-writer", inst,
                      "the %s record writer emits `%s` via %s but the size estimate (%s) has no term for it: the record can exceed the slot "
                      "computed from the estimate and overwrite the next slot" % (kind, k7.expr_str(src), role, k7.expr_str(payload)), where=where(rec, b))
        # ---- zero pad to the slot end, after every field
        zp = calls_to(prog, rec, target_fn=R.need("ZERO_PAD"))
        ok = len(zp) == 1 and all(rec.dominates(w[0], zp[0][0]) for w in writes) and not rec.success_reach_return(0, [zp[0][0]])
        if ok:
            c = cn_w.op(zp[0][1]["args"][1], zp[0][0])
            ok = c[0] == "call" and c[1].endswith("Add::add") and all(x[0] == "p" and x[1] == 1 for x in c[2]) \
                and {x[2][-1].rsplit(".", 1)[-1] for x in c[2]} == {"offset", "size"}
        ctx.check(ok, "slot-honoured", kind + ":zero-pad-to-slot-end",
                  "the %s record writer does not finish by zero-filling up to offset + size (stale bytes of a previous occupant would remain / the slot extent is not written)" % kind, where=where(rec))
        ctx.sample({"record": kind, "writes": [(r, k7.expr_str(s)) for b, r, s in writes], "estimate": k7.expr_str(payload), "size_field": k7.expr_str(size_field)})
    ctx.floor("sizer-covers-writer", "record fields checked against the estimate", n_fields, 8 if "vf_vu64" in prog.features.get("abyssiniandb", []) else 8)
    from . import payload
    payload.check_len_is_len_of_payload(ctx, prog, R)
    payload.check_stored_length_reads(ctx, prog, R)
    tables.check_tables(ctx, prog, R)
    check_bounded_writer_contract(ctx, prog, R)


def _self_norm(c):
    """Strip value-preserving conversions (checked narrowing `try_into().unwrap()`, into/from) so that the writer's and
    the sizer's expressions for the same quantity compare equal in every feature configuration."""
    if c[0] == "call" and len(c[2]) == 1 and c[1].rsplit("::", 1)[-1] in ("unwrap", "try_into", "into", "from", "try_from", "expect"):
        return _self_norm(c[2][0])
    if c[0] == "call":
        return ("call", c[1], tuple(_self_norm(a) for a in c[2]), c[3])
    if c[0] == "bin":
        return ("bin", c[1], _self_norm(c[2]), _self_norm(c[3]))
    if c[0] in ("len", "un"):
        return c[:-1] + (_self_norm(c[-1]),)
    return c


# ---------------------------------------------------------------------------------------------------------------
def rabuf_contracts(prog):
    """(trait method name, param index) of rabuf SmallRead/SmallWrite methods whose body starts with a
    debug_assert!/assert! on `param.len() <= <something>` -- the bounded-buffer contract."""
    out = []
    for fn in prog.fns.values():
        if fn.crate != "rabuf" or fn.impl_trait not in ("rabuf::SmallWrite", "rabuf::SmallRead"):
            continue
        cn = k7.Canon(prog, fn)
        for (sb, t_true, t_false, c) in k7.conditions(prog, fn):
            op, X, Y = c
            if op in ("Le", "Lt") and X and X[0] == "len" and X[1][0] == "p":
                # failing edge diverges?
                if not fn.success_reach_return(t_false, ()):
                    out.append((fn, fn.name, X[1][1]))
    return out


def check_slot_end_exprs(ctx, prog, rule="slot-end-from-slot-start"):
    seek_start = Roles(prog).need("SEEK_START")
    """`Offset<Piece<T>> + Size<Piece<T>>` is how the lib computes the end of a slot.  The left operand must be a slot
    *start* (a parameter, a record's own offset field, a free-list pointer, or what seek_from_start returned for one) -
    never a cursor position queried inside the record (start + width of the fields already consumed): that sum lies
    beyond the slot, i.e. in the next record or past the end of the file (rabuf extends the file on such a seek)."""
    n = 0
    for fn in sorted(prog.fns.values(), key=lambda f: f.id):
        if fn.crate != "abyssiniandb":
            continue
        cn = None
        for b, t in fn.calls():
            cal = t.get("callee") or ""
            ga = t.get("gargs") or []
            if not cal.endswith("arith::Add::add") or len(ga) != 2 or "semtype::Offset<" not in ga[0] or "semtype::Size<" not in ga[1] or "Piece<" not in ga[0]:
                continue
            cn = cn or k7.Canon(prog, fn)
            lhs = cn.op(t["args"][0], b)
            n += 1
            bad = None
            c = lhs
            if c[0] == "call":
                nm = c[1].rsplit("::", 1)[-1]
                if c[1] == seek_start.id or c[1].endswith("::" + seek_start.name) or nm in ("new", "into", "from", "clone", "unwrap"):
                    c = c[2][-1] if c[2] else c
                else:
                    bad = "the result of %s()" % nm
            if not bad and c[0] == "bin":
                bad = "the computed value `%s`" % k7.expr_str(c)
            if not bad and c[0] in ("?", "c?", "call?"):
                bad = "an unrecognised expression"
            ctx.check(bad is None, rule, "%s:%s" % (fn.name, k7.expr_str(lhs)),
                      "%s adds a slot size to %s, which is not the start of that slot: the sum lies beyond the slot's end" % (short(fn.id), bad), where=where(fn, b))
    ctx.floor(rule, "Offset + Size sites", n, 4)


def check_bounded_writer_contract(ctx, prog, R):
    contracts = rabuf_contracts(prog)
    ctx.floor("bounded-buffer-contract", "rabuf primitives with a buffer-length precondition", len(contracts), 2)
    # propagate through pure forwarders:  f(.., p, ..) { inner(.., p, ..) }
    contracted = {(fn.id, pi) for fn, name, pi in contracts}
    names = {}
    for fn, name, pi in contracts:
        names[(fn.id, pi)] = "rabuf::%s" % name
    changed = True
    sites = []
    while changed:
        changed = False
        sites = []
        for fn in prog.fns.values():
            if fn.crate not in ("abyssiniandb", "vu64"):
                continue
            for b, t in fn.calls():
                for x in prog.targets(t, fn)[0]:
                    for i, a in enumerate(t["args"]):
                        if (x.id, i + 1) in contracted:
                            o = leaf_origins(prog, fn, a, at=b, terminal_only=True)
                            fwd = [y for y in o if y.kind == "param" and not y.proj]
                            if o and len(fwd) == len(o) and len({y.data for y in fwd}) == 1:
                                # forwarder -- unless it establishes the bound itself
                                cn = k7.Canon(prog, fn)
                                A = ("len", cn.op({"k": "cp", "pl": {"l": fwd[0].data, "p": []}}, b))
                                guarded = any(cc[0] in ("Le", "Lt") and cc[1] and k7.same(cc[1], A) and cc[2] and cc[2][0] == "c" and fn.dominates(tt, b)
                                              for (sb, tt, tf, cc) in k7.conditions(prog, fn))
                                if guarded:
                                    continue
                                key = (fn.id, fwd[0].data)
                                if key not in contracted:
                                    contracted.add(key)
                                    names[key] = names[(x.id, i + 1)]
                                    changed = True
                            else:
                                sites.append((fn, b, t, i, x, o))
    n = 0
    for fn, b, t, i, x, o in sites:
        n += 1
        ok = True
        why = []
        for y in o:
            if y.kind in ("agg", "repeat"):
                continue        # fixed-size local array
            if y.kind == "const":
                continue
            if y.kind == "call" and (y.data.get("callee") or "").endswith(("to_le_bytes", "to_be_bytes")):
                continue
            if y.kind == "local" and fn.local_ty(y.data).startswith("[u8; "):
                continue        # a fixed-size local buffer
            ok = False
            why.append(repr(y))
        inst = "%s->%s" % (fn.name if fn.impl_self is None else "%s::%s" % (short(fn.impl_self_adt or fn.impl_self), fn.name), x.name)
        ctx.check(ok, "small-writer", inst,
                  "caller-sized data (%s) is passed to %s, whose contract in the dependency is `len <= one buffer chunk` (debug_assert): a payload "
                  "longer than the file's chunk size panics in debug builds" % (", ".join(why)[:160], names.get((x.id, i + 1), x.id)),
                  where=where(fn, b), expected="the unbounded writer (write_all) for payloads, or a dominating length guard")
    ctx.sample({"rule": "bounded-buffer-contract", "contracted_functions": sorted("%s#%d" % (short(k[0]), k[1]) for k in contracted), "call_sites_checked": n})


def check(ctx):
    _check_own(ctx)
    from .engine import import_rules
    # clause 2: the slot is sized from the estimate and honoured by both record writers
    import_rules(ctx, "c06", {"writer-arms", "alloc", "large-pop-conservation", "delete-pushes-slot", "push-pop-inverse", "free-slot-field-position"})
    import_rules(ctx, "c18", {"full-extent"})
