"""Roles (anchors) of abyssiniandb and the primitive I/O effect atoms.

Rules name roles, never private functions.  Each role is resolved by owner
(ADT or module) + preferred name; if that fails, by a *shape* (signature and a
small body fingerprint).  Ambiguous / empty resolution fails closed.
"""
import re
from .model import AnchorError, Effects, const_val, short

A = "abyssiniandb::filedb::inner::"
HTXFILE = A + "htx::HtxFile"
KEYFILE = A + "key::KeyFile"
VALFILE = A + "val::ValueFile"
VARFILE = A + "vfile::VarFile"
KEYCACHE = A + "key::VarFileKeyCache"
VALCACHE = A + "val::VarFileValueCache"
HTXCACHE = A + "htx::VarFileHtxCache"
INNER = A + "dbxxx::FileDbXxxInner"
KEYPIECE = A + "key::KeyPiece"
VALPIECE = A + "val::ValuePiece"
PIECEMGR = A + "piece::PieceMgr"
FILEDBINNER = A + "FileDbInner"
ITERMUT = A + "dbxxx::DbXxxIterMut"

M_HTX = "abyssiniandb::filedb::inner::htx"
M_KEY = "abyssiniandb::filedb::inner::key"
M_VAL = "abyssiniandb::filedb::inner::val"
M_PIECE = "abyssiniandb::filedb::inner::piece"
M_VFILE = "abyssiniandb::filedb::inner::vfile"
M_DBXXX = "abyssiniandb::filedb::inner::dbxxx"


def sig(fn):
    return (tuple(short(x) for x in fn.inputs), short(fn.output))


def _callee_names(fn):
    return {(t.get("callee") or "").rsplit("::", 1)[-1] for _, t in fn.calls()}


def _consts_in(fn):
    out = set()
    for blk in fn.blocks:
        for s in blk["stmts"]:
            if s["s"] == "assign":
                for op in _rv_ops(s["rhs"]):
                    v = const_val(op)
                    if isinstance(v, int):
                        out.add(v)
        t = blk["term"]
        if t and t["t"] == "call":
            for op in t["args"]:
                v = const_val(op)
                if isinstance(v, int):
                    out.add(v)
    return out


def _rv_ops(rv):
    k = rv["rv"]
    if k in ("use", "cast", "un", "repeat"):
        return [rv["a"]]
    if k == "bin":
        return [rv["a"], rv["b"]]
    if k == "agg":
        return rv["ops"]
    return []


def _calls_role(prog, fn, role):
    try:
        tgt = resolve(prog, role)
    except AnchorError:
        return False
    for b, t in fn.calls():
        if any(x.id == tgt.id for x in prog.targets(t, fn)[0]):
            return True
    return False


def _reaches_role(prog, fn, role, depth=4):
    try:
        tgt = resolve(prog, role)
    except AnchorError:
        return False
    seen, stack = set(), [(fn, 0)]
    while stack:
        f, d = stack.pop()
        if f.id in seen or d > depth:
            continue
        seen.add(f.id)
        for b, t in f.calls():
            for x in prog.targets(t, f)[0]:
                if x.id == tgt.id:
                    return True
                if x.crate == "abyssiniandb":
                    stack.append((x, d + 1))
    return False


def _calls_any(fn, names):
    return any(n in _callee_names(fn) for n in names)


def _has_neg(fn):
    for blk in fn.blocks:
        for s_ in blk["stmts"]:
            if s_["s"] == "assign" and s_["rhs"]["rv"] == "un" and s_["rhs"]["op"] == "Neg":
                return True
    return False


def _binops(fn):
    out = set()
    for blk in fn.blocks:
        for s in blk["stmts"]:
            if s["s"] == "assign" and s["rhs"]["rv"] == "bin":
                out.add(s["rhs"]["op"])
    return out


# role -> dict(owner=ADT path or None, module=..., name=preferred, shape=lambda prog, fn: bool)
ROLES = {
    # --- htx ---------------------------------------------------------------
    "HEAD_READ": dict(owner=HTXFILE, name="read_key_piece_offset",
                      shape=lambda p, f: sig(f) == (("&HtxFile", "HashValue"), "Result<Offset<Piece<Key>>, Error>")),
    "HEAD_WRITE": dict(owner=HTXFILE, name="write_key_piece_offset",
                       shape=lambda p, f: sig(f) == (("&HtxFile", "HashValue", "Offset<Piece<Key>>"), "Result<(), Error>")),
    "CNT_READ": dict(owner=HTXFILE, name="read_item_count",
                     shape=lambda p, f: sig(f) == (("&HtxFile",), "Result<u64, Error>") and _calls_role(p, f, "CNT_READ_RAW")),
    "CNT_UP": dict(owner=HTXFILE, name="write_item_count_up",
                   shape=lambda p, f: sig(f) == (("&mut HtxFile",), "Result<(), Error>") and ("AddWithOverflow" in _binops(f) or "Add" in _binops(f))),
    "CNT_DOWN": dict(owner=HTXFILE, name="write_item_count_down",
                     shape=lambda p, f: sig(f) == (("&mut HtxFile",), "Result<(), Error>") and ("SubWithOverflow" in _binops(f) or "Sub" in _binops(f))),
    "HT_SIZE_READ_W": dict(owner=HTXFILE, name="read_hash_buckets_size", shape=lambda p, f: sig(f) == (("&HtxFile",), "Result<u64, Error>") and _calls_role(p, f, "HT_SIZE_READ")),
    "HTX_OPEN": dict(owner=HTXFILE, name="open_with_params",
                     shape=lambda p, f: short(f.output) == "Result<HtxFile, Error>" and len(f.inputs) == 4),
    "HTX_FILL": dict(owner=HTXFILE, name="htx_filling_rate_per_mill",
                     shape=lambda p, f: sig(f) == (("&HtxFile",), "Result<(u64, u32), Error>")),
    "CNT_READ_RAW": dict(owner=VARFILE, module=M_HTX, name="read_item_count",
                         shape=lambda p, f: sig(f) == (("&mut VarFile",), "Result<u64, Error>") and 24 in _consts_in(f)),
    "CNT_WRITE": dict(owner=VARFILE, module=M_HTX, name="write_item_count",
                      shape=lambda p, f: sig(f) == (("&mut VarFile", "u64"), "Result<(), Error>") and 24 in _consts_in(f)),
    "HT_SIZE_READ": dict(owner=VARFILE, module=M_HTX, name="read_hash_buckets_size",
                         shape=lambda p, f: sig(f) == (("&mut VarFile",), "Result<u64, Error>") and 16 in _consts_in(f)),
    "BUCKET_LOAD": dict(owner=VARFILE, module=M_HTX, name="read_key_piece_offset",
                        shape=lambda p, f: sig(f) == (("&mut VarFile", "u64"), "Result<Offset<Piece<Key>>, Error>")),
    "BUCKET_STORE": dict(owner=VARFILE, module=M_HTX, name="write_key_piece_offset",
                         shape=lambda p, f: sig(f) == (("&mut VarFile", "u64", "u64", "Offset<Piece<Key>>"), "Result<(), Error>")),
    "SCAN": dict(owner=VARFILE, module=M_HTX, name="next_key_piece_offset",
                 shape=lambda p, f: sig(f) == (("&mut VarFile", "u64", "u64"), "Result<(u64, Offset<Piece<Key>>), Error>")),
    "HDR_INIT_HTX": dict(owner=None, module=M_HTX, name="write_htxf_init_header",
                         shape=lambda p, f: sig(f) == (("&mut VarFile", "[u8; 8]", "u64"), "Result<(), Error>")),
    "HDR_CHECK_HTX": dict(owner=None, module=M_HTX, name="check_htxf_header",
                          shape=lambda p, f: sig(f) == (("&mut VarFile", "[u8; 8]"), "Result<(), Error>")),
    "CAP2BUCKETS": dict(owner=None, module=M_HTX, name="capacity_to_buckets_size",
                        shape=lambda p, f: sig(f) == (("u64",), "u64")),
    # --- key -----------------------------------------------------------------
    "KEY_OPEN": dict(owner=KEYFILE, name="open_with_params",
                     shape=lambda p, f: short(f.output).startswith("Result<KeyFile<") and len(f.inputs) == 4),
    "KEY_ALLOC": dict(owner=KEYFILE, name="add_key_piece",
                      shape=lambda p, f: len(f.inputs) == 4 and short(f.inputs[0]).startswith("&KeyFile<") and short(f.output).startswith("Result<KeyPiece<")),
    "KEY_REWRITE": dict(owner=KEYFILE, name="write_piece",
                        shape=lambda p, f: len(f.inputs) == 2 and short(f.inputs[0]).startswith("&KeyFile<") and short(f.inputs[1]).startswith("KeyPiece<") and short(f.output).startswith("Result<KeyPiece<")),
    "KEY_FREE": dict(owner=KEYFILE, name="delete_piece",
                     shape=lambda p, f: len(f.inputs) == 2 and short(f.inputs[0]).startswith("&KeyFile<") and short(f.output) == "Result<Size<Piece<Key>>, Error>" and _reaches_role(p, f, "SLOT_PUSH")),
    "KEY_READ": dict(owner=KEYFILE, name="read_piece",
                     shape=lambda p, f: len(f.inputs) == 2 and short(f.inputs[0]).startswith("&KeyFile<") and short(f.inputs[1]) == "Offset<Piece<Key>>" and short(f.output).startswith("Result<KeyPiece<")),
    "KEY_VALOFF": dict(owner=KEYFILE, name="read_piece_only_value_offset",
                       shape=lambda p, f: len(f.inputs) == 2 and short(f.inputs[0]).startswith("&KeyFile<") and short(f.output) == "Result<Offset<Piece<Value>>, Error>"),
    "KEY_BYTES_AT": dict(owner=KEYCACHE, name="read_piece_only_key_maybeslice",
                         shape=lambda p, f: len(f.inputs) == 2 and "MaybeSlice" in f.output),
    "NEXT_AT": dict(owner=KEYCACHE, name="read_piece_only_bucket_next_offset",
                    shape=lambda p, f: len(f.inputs) == 2 and short(f.inputs[0]).startswith("&mut VarFileKeyCache<") and short(f.output) == "Result<Offset<Piece<Key>>, Error>"),
    "KEY_WRITE_PIECE": dict(owner=KEYCACHE, name="write_piece",
                            shape=lambda p, f: len(f.inputs) == 3 and short(f.inputs[2]) == "bool" and short(f.output).startswith("Result<KeyPiece<")),
    "KEY_DELETE_PIECE": dict(owner=KEYCACHE, name="delete_piece",
                             shape=lambda p, f: len(f.inputs) == 2 and short(f.inputs[0]).startswith("&mut VarFileKeyCache<") and short(f.output) == "Result<Size<Piece<Key>>, Error>" and _reaches_role(p, f, "SLOT_PUSH")),
    "KEY_RECORD_WRITE": dict(owner=KEYPIECE, name="dat_write_piece_one",
                             shape=lambda p, f: len(f.inputs) == 2 and short(f.inputs[1]) == "&mut VarFile" and short(f.output) == "Result<(), Error>"),
    "KEY_SIZER": dict(owner=KEYPIECE, name="encoded_piece_size",
                      shape=lambda p, f: len(f.inputs) == 1 and (short(f.output) == "(u32, u32, Length<Key>)" or _is_sizer(p, f))),
    "KEY_READ_PIECE": dict(owner=KEYCACHE, name="read_piece",
                           shape=lambda p, f: len(f.inputs) == 2 and short(f.inputs[0]).startswith("&mut VarFileKeyCache<") and short(f.output).startswith("Result<KeyPiece<")),
    "HDR_INIT_KEY": dict(owner=None, module=M_KEY, name="write_keyrecf_init_header",
                         shape=lambda p, f: sig(f) == (("&mut VarFile", "[u8; 8]"), "Result<(), Error>") and any(n.startswith("write") for n in _callee_names(f))),
    "HDR_CHECK_KEY": dict(owner=None, module=M_KEY, name="check_keyrecf_header",
                          shape=lambda p, f: sig(f) == (("&mut VarFile", "[u8; 8]"), "Result<(), Error>") and not any(n.startswith("write") for n in _callee_names(f))),
    # --- val -----------------------------------------------------------------
    "VAL_OPEN": dict(owner=VALFILE, name="open_with_params",
                     shape=lambda p, f: short(f.output) == "Result<ValueFile, Error>" and len(f.inputs) == 4),
    "VAL_ALLOC": dict(owner=VALFILE, name="add_value_piece",
                      shape=lambda p, f: sig(f) == (("&ValueFile", "&[u8]"), "Result<ValuePiece, Error>")),
    "VAL_REWRITE": dict(owner=VALFILE, name="write_piece",
                        shape=lambda p, f: sig(f) == (("&ValueFile", "ValuePiece"), "Result<ValuePiece, Error>")),
    "VAL_FREE": dict(owner=VALFILE, name="delete_piece",
                     shape=lambda p, f: sig(f) == (("&ValueFile", "Offset<Piece<Value>>"), "Result<Size<Piece<Value>>, Error>") and _reaches_role(p, f, "SLOT_PUSH")),
    "VAL_READ": dict(owner=VALFILE, name="read_piece_only_value",
                     shape=lambda p, f: sig(f) == (("&ValueFile", "Offset<Piece<Value>>"), "Result<Vec<u8>, Error>")),
    "VAL_READ_PIECE_W": dict(owner=VALFILE, name="read_piece",
                             shape=lambda p, f: sig(f) == (("&ValueFile", "Offset<Piece<Value>>"), "Result<ValuePiece, Error>")),
    "VAL_WRITE_PIECE": dict(owner=VALCACHE, name="write_piece",
                            shape=lambda p, f: sig(f) == (("&mut VarFileValueCache", "ValuePiece", "bool"), "Result<ValuePiece, Error>")),
    "VAL_DELETE_PIECE": dict(owner=VALCACHE, name="delete_piece",
                             shape=lambda p, f: sig(f) == (("&mut VarFileValueCache", "Offset<Piece<Value>>"), "Result<Size<Piece<Value>>, Error>") and _reaches_role(p, f, "SLOT_PUSH")),
    "VAL_RECORD_WRITE": dict(owner=VALPIECE, name="dat_write_piece_one",
                             shape=lambda p, f: sig(f) == (("&ValuePiece", "&mut VarFile"), "Result<(), Error>")),
    "VAL_SIZER": dict(owner=VALPIECE, name="encoded_piece_size",
                      shape=lambda p, f: len(f.inputs) == 1 and (short(f.output) == "(u32, u32, Length<Value>)" or _is_sizer(p, f))),
    "HDR_INIT_VAL": dict(owner=None, module=M_VAL, name="write_valrecf_init_header",
                         shape=lambda p, f: sig(f) == (("&mut VarFile", "[u8; 8]"), "Result<(), Error>") and any(n.startswith("write") for n in _callee_names(f))),
    "HDR_CHECK_VAL": dict(owner=None, module=M_VAL, name="check_valrecf_header",
                          shape=lambda p, f: sig(f) == (("&mut VarFile", "[u8; 8]"), "Result<(), Error>") and not any(n.startswith("write") for n in _callee_names(f))),
    # --- piece ---------------------------------------------------------------
    "SLOT_PUSH": dict(owner=VARFILE, module=M_PIECE, name="push_free_piece_list",
                      shape=lambda p, f: len(f.inputs) == 3 and short(f.inputs[1]).startswith("Offset<Piece<") and short(f.inputs[2]).startswith("Size<Piece<") and short(f.output) == "Result<(), Error>"),
    "SLOT_POP": dict(owner=VARFILE, module=M_PIECE, name="pop_free_piece_list",
                     shape=lambda p, f: len(f.inputs) == 2 and short(f.inputs[1]).startswith("Size<Piece<") and short(f.output).startswith("Result<Offset<Piece<") and _calls_role(p, f, "LARGE_POP")),
    "LARGE_POP": dict(owner=VARFILE, module=M_PIECE, name="pop_free_piece_list_large",
                      shape=lambda p, f: len(f.inputs) == 3 and short(f.inputs[1]).startswith("Size<Piece<") and short(f.inputs[2]).startswith("Offset<Piece<") and short(f.output).startswith("Result<Offset<Piece<")),
    "FREE_HEAD_READ": dict(owner=VARFILE, module=M_PIECE, name="read_free_piece_offset_on_header", shape=lambda p, f: len(f.inputs) == 2 and short(f.inputs[1]).startswith("Size<Piece<") and short(f.output).startswith("Result<Offset<Piece<") and _calls_role(p, f, "FREE_HEAD_OFFSET") and "read_u64_le" in _callee_names(f)),
    "FREE_HEAD_WRITE": dict(owner=VARFILE, module=M_PIECE, name="write_free_piece_offset_on_header", shape=lambda p, f: len(f.inputs) == 3 and short(f.inputs[1]).startswith("Size<Piece<") and short(f.inputs[2]).startswith("Offset<Piece<") and short(f.output) == "Result<(), Error>"),
    "FREE_COUNT": dict(owner=VARFILE, module=M_PIECE, name="count_of_free_piece_list",
                       shape=lambda p, f: len(f.inputs) == 2 and short(f.output) == "Result<u64, Error>" and f.module == M_PIECE),
    "FREE_SIZE_NEXT": dict(owner=VARFILE, module=M_PIECE, name="read_free_piece_size_next",
                           shape=lambda p, f: len(f.inputs) == 2 and short(f.inputs[1]).startswith("Offset<") and short(f.output).startswith("Result<") and f.impl_trait is None
                           and (short(f.output).startswith("Result<(Size<Piece<") or
                                ({"read_piece_size", "read_free_piece_offset"} <= _callee_names(f) and not _calls_any(f, ("write_free_piece_offset", "write_piece_size", "write_zero", "write_zero_to_offset"))))),
    "ROUNDUP": dict(owner=PIECEMGR, name="roundup",
                    shape=lambda p, f: len(f.inputs) == 2 and short(f.inputs[0]) == "&PieceMgr" and short(f.output).startswith("Size<Piece<")),
    "FREE_HEAD_OFFSET": dict(owner=PIECEMGR, name="free_piece_list_offset_of_header", shape=lambda p, f: len(f.inputs) == 2 and short(f.inputs[0]) == "&PieceMgr" and short(f.output) == "u64"),
    "CAN_DOWN": dict(owner=PIECEMGR, name="can_down", shape=lambda p, f: len(f.inputs) == 3 and short(f.inputs[0]) == "&PieceMgr" and short(f.output) == "bool"),
    "IS_LARGE": dict(owner=PIECEMGR, name="is_large_piece_size", shape=lambda p, f: len(f.inputs) == 2 and short(f.inputs[0]) == "&PieceMgr" and short(f.output) == "bool"),
    "SLOT_WALK": dict(owner=A + "piece::PieceOffsetIter", name="next_piece_offset", shape=lambda p, f: len(f.inputs) == 1 and short(f.output).startswith("Result<Option<Offset<Piece<")),
    # --- vfile ---------------------------------------------------------------
    "ZERO_PAD": dict(owner=VARFILE, module=M_VFILE, name="write_zero_to_offset",
                     shape=lambda p, f: len(f.inputs) == 2 and short(f.inputs[1]).startswith("Offset<") and short(f.output) == "Result<(), Error>" and "write_zero" in _callee_names(f)),
    "SLOT_CLEAR": dict(owner=VARFILE, module=M_VFILE, name="write_piece_clear", shape=lambda p, f: len(f.inputs) == 3 and short(f.inputs[1]).startswith("Offset<Piece<") and short(f.inputs[2]).startswith("Size<Piece<") and short(f.output) == "Result<(), Error>"),
    "EXTEND": dict(owner=VARFILE, module=M_VFILE, name="seek_to_end",
                   shape=lambda p, f: len(f.inputs) == 1 and short(f.output).startswith("Result<Offset<") and "seek" in _callee_names(f) and not f.name.startswith("_")),
    "SET_LEN": dict(owner=VARFILE, module=M_VFILE, name="set_file_length",
                    shape=lambda p, f: len(f.inputs) == 2 and "set_len" in _callee_names(f)),
    "SEEK_START": dict(owner=VARFILE, module=M_VFILE, name="seek_from_start", shape=lambda p, f: len(f.inputs) == 2 and short(f.inputs[1]) == "Offset<T>" and short(f.output) == "Result<Offset<T>, Error>" and "prepare" in _callee_names(f)),
    "SEEK_BACK": dict(owner=VARFILE, module=M_VFILE, name="seek_back_size", shape=lambda p, f: len(f.inputs) == 2 and short(f.inputs[1]) == "Size<T>" and short(f.output) == "Result<Offset<T>, Error>" and _has_neg(f)),
    "W_PIECE_SIZE": dict(owner=VARFILE, module=M_VFILE, name="write_piece_size", shape=lambda p, f: len(f.inputs) == 2 and short(f.inputs[1]) == "Size<Piece<T>>" and short(f.output) == "Result<(), Error>"),
    "R_PIECE_SIZE": dict(owner=VARFILE, module=M_VFILE, name="read_piece_size", shape=lambda p, f: len(f.inputs) == 1 and short(f.output) == "Result<Size<Piece<T>>, Error>"),
    "W_PIECE_OFFSET": dict(owner=VARFILE, module=M_VFILE, name="write_piece_offset", shape=lambda p, f: len(f.inputs) == 2 and short(f.inputs[1]) == "Offset<Piece<T>>" and short(f.output) == "Result<(), Error>" and not f.name.startswith("_") and not _calls_any(f, ("write_u64_le",)) or (len(f.inputs) == 2 and short(f.inputs[1]) == "Offset<Piece<T>>" and short(f.output) == "Result<(), Error>" and not f.name.startswith("_") and "vf_vu64" not in p.features.get("abyssiniandb", []))),
    "R_PIECE_OFFSET": dict(owner=VARFILE, module=M_VFILE, name="read_piece_offset", shape=lambda p, f: len(f.inputs) == 1 and short(f.output) == "Result<Offset<Piece<T>>, Error>" and not f.name.startswith("_")),
    "W_KEY_LEN": dict(owner=VARFILE, module=M_VFILE, name="write_key_len", shape=lambda p, f: len(f.inputs) == 2 and short(f.inputs[1]) == "Length<Key>" and short(f.output) == "Result<(), Error>"),
    "R_KEY_LEN": dict(owner=VARFILE, module=M_VFILE, name="read_key_len", shape=lambda p, f: len(f.inputs) == 1 and short(f.output) == "Result<Length<Key>, Error>"),
    "W_VAL_LEN": dict(owner=VARFILE, module=M_VFILE, name="write_value_len", shape=lambda p, f: len(f.inputs) == 2 and short(f.inputs[1]) == "Length<Value>" and short(f.output) == "Result<(), Error>"),
    "R_VAL_LEN": dict(owner=VARFILE, module=M_VFILE, name="read_value_len", shape=lambda p, f: len(f.inputs) == 1 and short(f.output) == "Result<Length<Value>, Error>"),
    "W_FREE_OFFSET": dict(owner=VARFILE, module=M_VFILE, name="write_free_piece_offset", shape=lambda p, f: len(f.inputs) == 2 and short(f.inputs[1]) == "Offset<T>" and short(f.output) == "Result<(), Error>" and "write_u64_le" in _callee_names(f)),
    "R_FREE_OFFSET": dict(owner=VARFILE, module=M_VFILE, name="read_free_piece_offset", shape=lambda p, f: len(f.inputs) == 1 and short(f.output) == "Result<Offset<T>, Error>" and "read_u64_le" in _callee_names(f)),
    # --- dbxxx ---------------------------------------------------------------
    "LOOKUP": dict(owner=INNER, name="find_in_hash_buckets_kt",
                   shape=lambda p, f: "Option<(Offset<Piece<Key>>, Offset<Piece<Key>>)>" in short(f.output) and f.impl_self_adt == INNER),
    "INNER_OPEN": dict(owner=INNER, name="open_with_params",
                       shape=lambda p, f: short(f.output).startswith("Result<FileDbXxxInner<") and f.impl_self_adt == INNER),
    "OVERWRITE": dict(owner=INNER, name="store_value_on_insert",
                      shape=lambda p, f: len(f.inputs) == 3 and short(f.inputs[1]) == "Offset<Piece<Key>>" and short(f.inputs[2]) == "&[u8]" and f.impl_self_adt == INNER and f.impl_trait is None),
    "LOAD_VALUE": dict(owner=INNER, name="load_value",
                       shape=lambda p, f: len(f.inputs) == 2 and short(f.inputs[1]) == "Offset<Piece<Key>>" and short(f.output) == "Result<Vec<u8>, Error>" and f.impl_self_adt == INNER and f.impl_trait is None),
    "LOAD_KEY": dict(owner=INNER, name="load_key_data", shape=lambda p, f: len(f.inputs) == 2 and short(f.inputs[1]) == "Offset<Piece<Key>>" and short(f.output) == "Result<KT, Error>" and f.impl_self_adt == INNER and f.impl_trait is None),
    "ITER_NEXT": dict(owner=ITERMUT, name="next_piece_offset",
                      shape=lambda p, f: len(f.inputs) == 1 and short(f.output) == "Option<Offset<Piece<Key>>>" and f.impl_self_adt == ITERMUT),
    # the predecessor search of the re-link code: method or free function (kept out of helper inlining by being a role)
    "FIND_PREV": dict(owner=INNER, any_owner=True, name="find_prev_key_offset",
                      shape=lambda p, f: short(f.output) == "Result<Offset<Piece<Key>>, Error>" and f.impl_trait is None
                      and any(t.endswith("semtype::HashValue") for t in f.inputs) and any(short(t) == "Offset<Piece<Key>>" for t in f.inputs)),
    "ITER_NEW": dict(owner=ITERMUT, name="new",
                     shape=lambda p, f: len(f.inputs) == 1 and short(f.output).startswith("Result<DbXxxIterMut<") and f.impl_self_adt == ITERMUT),
}


def _is_sizer(prog, f):
    """a `&self` method of a record type whose result is an aggregate with a payload-sum component and a size-field-length
    component (c09.sizer_components): the size estimate, whatever it is called and however its result is packaged"""
    if f.impl_trait is not None or f.output.startswith("core::result::Result<"):
        return False
    try:
        from .c09 import sizer_components
        return sizer_components(prog, f) is not None
    except Exception:
        return False


def free_head_components(prog, roles_obj):
    """(projection of the slot size, projection of the next link) in the Ok payload of FREE_SIZE_NEXT: ('f:0', 'f:1') for the
    released tuple; decided by which field primitive each component of the returned aggregate comes from, so a tuple in
    another order or a small struct is read correctly."""
    cache = prog.__dict__.setdefault("_free_head_components", {})
    if "v" in cache:
        return cache["v"]
    res = ("f:0", "f:1")
    try:
        from .util import tracer, is_call_to
        f = roles_obj.need("FREE_SIZE_NEXT")
        rs, rn = roles_obj.need("R_PIECE_SIZE"), roles_obj.need("R_FREE_OFFSET")
        tr = tracer(prog, f)
        for b in f.return_blocks():
            for o in tr.place({"l": 0, "p": []}, at=b):
                if o.kind != "agg" or o.data.get("variant") != "Ok" or len(o.data.get("ops", [])) != 1:
                    continue
                for a in tr.operand(o.data["ops"][0], at=o.block):
                    if a.kind != "agg" or len(a.data.get("ops", [])) != 2:
                        continue
                    if a.data.get("agg") == "tuple":
                        names = ["f:0", "f:1"]
                    elif a.data.get("agg") == "adt" and a.data.get("fields"):
                        names = ["f:%s.%s" % (a.data["adt"].rsplit("::", 1)[-1], x) for x in a.data["fields"]]
                    else:
                        continue
                    sz = nx = None
                    for nm, op in zip(names, a.data["ops"]):
                        src = tr.operand(op, at=a.block)
                        if src and all(is_call_to(prog, f, x, rs) for x in src):
                            sz = nm
                        if src and all(is_call_to(prog, f, x, rn) for x in src):
                            nx = nm
                    if sz and nx:
                        res = (sz, nx)
    except AnchorError:
        pass
    cache["v"] = res
    return res


def resolve(prog, role):
    spec = ROLES[role]
    owner = spec.get("owner")
    module = spec.get("module")
    name = spec["name"]

    def in_scope(fn):
        if fn.crate != "abyssiniandb" or fn.kind == "Closure":
            return False
        if spec.get("any_owner"):
            return True
        if owner is not None and fn.impl_self_adt != owner:
            return False
        if owner is None and fn.impl_self_adt is not None:
            return False
        if module is not None and fn.module != module:
            return False
        return True

    pref = [fn for fn in prog.by_name.get(name, []) if in_scope(fn) and fn.impl_trait is None]
    if len(pref) == 1:
        return pref[0]
    shape = spec.get("shape")
    if shape is not None:
        cands = []
        for fn in prog.fns.values():
            if not in_scope(fn):
                continue
            try:
                if shape(prog, fn):
                    cands.append(fn)
            except Exception:
                pass
        if len(cands) == 1:
            return cands[0]
        raise AnchorError("role %s: preferred name %r gave %d candidate(s), shape fallback gave %d (%s)"
                          % (role, name, len(pref), len(cands), [c.id for c in cands][:4]))
    raise AnchorError("role %s: preferred name %r gave %d candidate(s) and no shape fallback is defined"
                      % (role, name, len(pref)))


class Roles:
    """Lazy role table bound to a Program; also the inverse map fn id -> roles."""

    def __init__(self, prog):
        self.prog = prog
        self._cache = {}
        self.errors = {}

    def get(self, role):
        if role not in self._cache:
            try:
                self._cache[role] = resolve(self.prog, role)
            except AnchorError as e:
                self._cache[role] = None
                self.errors[role] = str(e)
        return self._cache[role]

    def need(self, role):
        fn = self.get(role)
        if fn is None:
            raise AnchorError(self.errors.get(role, "role %s unresolved" % role))
        return fn

    def inverse(self, roles):
        inv = {}
        for r in roles:
            fn = self.get(r)
            if fn is not None:
                inv.setdefault(fn.id, set()).add(r)
        return inv


def role_effects(prog, roles_obj, role_names, extra_call=None, extra_stmt=None):
    """Effects whose labels are role names attached to call sites that resolve to the role's function."""
    inv = roles_obj.inverse(role_names)

    def label_call(p, fn, t):
        out = set()
        tg, kind = p.targets(t, fn)
        for x in tg:
            out |= inv.get(x.id, set())
        if extra_call:
            out |= set(extra_call(p, fn, t) or ())
        return out

    return Effects(prog, label_call, extra_stmt)


# ---------------------------------------------------------------------------
# primitive I/O atoms (derived from rabuf's own bodies + std leaf calls)
# ---------------------------------------------------------------------------
STD_LEAF = {
    "std::fs::File::set_len": "OS_SETLEN",
    "std::fs::File::sync_all": "OS_SYNC_ALL",
    "std::fs::File::sync_data": "OS_SYNC_DATA",
    "std::io::Write::write_all": "OS_WRITE",
    "std::io::Write::write": "OS_WRITE",
    "std::io::Write::flush": "OS_FLUSH",
    "std::io::Read::read": "OS_READ",
    "std::io::Read::read_exact": "OS_READ",
    "std::io::Seek::seek": "OS_SEEK",
    "std::fs::OpenOptions::open": "OS_OPEN",
    "std::fs::create_dir_all": "OS_MKDIR",
    "std::fs::File::create": "OS_TRUNC_CREATE",
    "std::fs::remove_file": "OS_REMOVE",
    "std::fs::remove_dir_all": "OS_REMOVE",
    "std::fs::remove_dir": "OS_REMOVE",
    "std::fs::write": "OS_TRUNC_CREATE",
    "std::fs::rename": "OS_RENAME",
    "std::fs::OpenOptions::create_new": "OS_CREATE_NEW",
}

RABUF_SEEK = "<rabuf::RaBuf<std::fs::File> as std::io::Seek>::seek"
RABUF_SETLEN = "<rabuf::RaBuf<std::fs::File> as rabuf::FileSetLen>::set_len"


def io_label_call(prog, fn, t):
    callee = t.get("callee") or ""
    out = set()
    tg, kind = prog.targets(t, fn)
    if not tg or kind == "generic":
        # leaf into std: only when the receiver is (or, for a generic receiver, may be) an OS file
        lab = STD_LEAF.get(callee)
        if lab:
            out.add(("?" if tg else "") + lab)
    return out


def io_label_stmt(prog, fn, s):
    # a chunk is marked dirty: the logical content of the buffered file changed
    if s["s"] == "assign":
        p = s["lhs"]["p"]
        if p and p[-1] == "f:rabuf::Chunk.dirty":
            v = const_val(s["rhs"].get("a", {})) if s["rhs"]["rv"] == "use" else None
            if v is True:
                return {"BUF_DIRTY"}
            if v is False:
                return {"BUF_CLEAN"}
            return {"BUF_DIRTY"}
    return ()


def io_effects(prog):
    """Effect summaries over primitive atoms.  The set_len reached from inside
    rabuf's seek (seeking past the end extends the file) is relabelled
    SEEK_EXTEND: it is a run-time-value question, stated as not decided."""
    relabel = {(RABUF_SEEK, RABUF_SETLEN): {"OS_SETLEN": "SEEK_EXTEND"}}
    eff = Effects(prog, io_label_call, io_label_stmt, relabel=relabel)
    return eff


WRITE_ATOMS = {"BUF_DIRTY", "OS_SETLEN"}
