"""Constant roles: the lib's private constants the rules talk about, found by their committed name or, when renamed,
by where they are used (so that renaming a private constant raises no alarm)."""
from .roles import Roles, M_KEY, M_VAL, M_HTX, KEYFILE, VALFILE


def _cdefs(fn):
    """(constant id, type, value) of every named constant an operand of fn refers to"""
    out = []

    def walk(o):
        if isinstance(o, dict):
            if o.get("cdef"):
                out.append((o["cdef"], o.get("ty") or "", o.get("v")))
            for v in o.values():
                walk(v)
        elif isinstance(o, list):
            for v in o:
                walk(v)
    for blk in fn.blocks:
        if blk["cleanup"]:
            continue
        walk(blk["stmts"])
        walk(blk["term"])
    return out


def const_id(prog, mod, name):
    """id of the constant playing the role that `mod::name` plays on the pinned tree (None if it cannot be found)."""
    cache = prog.__dict__.setdefault("_const_roles", {})
    key = (mod, name)
    if key in cache:
        return cache[key]
    cid = mod + "::" + name
    if cid not in prog.consts:
        cid = _fallback(prog, mod, name)
    cache[key] = cid
    return cid


def _fallback(prog, mod, name):
    R = Roles(prog)
    try:
        if name == "DAT_HEADER_SZ" and mod in (M_KEY, M_VAL):
            # the slot walk of the file starts right behind the header: the constant its PieceA start function returns
            owner = KEYFILE if mod == M_KEY else VALFILE
            ms = [f for f in prog.fns.values() if f.impl_self_adt == owner and (f.impl_trait or "").endswith("::PieceA") and len(f.inputs) == 1]
            cands = set()
            for f in ms:
                crate_calls = [t for b, t in f.calls() if (t.get("callee") or "").startswith("abyssiniandb::") and "::new" not in (t.get("callee") or "")]
                if crate_calls:
                    continue
                cands |= {c for c, ty, v in _cdefs(f) if c.startswith(mod + "::") and isinstance(v, dict) and "int" in v}
            return next(iter(cands)) if len(cands) == 1 else None
        if name == "HTX_HEADER_SZ" and mod == M_HTX:
            a = {(c, int(v["int"])) for c, ty, v in _cdefs(R.need("BUCKET_LOAD")) if isinstance(v, dict) and "int" in v}
            b = {(c, int(v["int"])) for c, ty, v in _cdefs(R.need("HTX_OPEN")) if isinstance(v, dict) and "int" in v}
            both = sorted(a & b, key=lambda x: -x[1])
            return both[0][0] if both else None
        if name in ("REC_SIZE_ARY", "REC_SIZE_FREE_OFFSET") and mod in (M_KEY, M_VAL):
            opener = R.need("KEY_OPEN" if mod == M_KEY else "VAL_OPEN")
            want = "[u32; " if name == "REC_SIZE_ARY" else "[u64; "
            cands = {c for c, ty, v in _cdefs(opener) if ty.startswith(want) and c.startswith(mod + "::")}
            return next(iter(cands)) if len(cands) == 1 else None
    except Exception:
        return None
    return None


def const_value(prog, mod, name):
    cid = const_id(prog, mod, name)
    c = prog.consts.get(cid) if cid else None
    if not c or not isinstance(c.get("v"), dict):
        return None
    v = c["v"]
    if "int" in v:
        return int(v["int"])
    if "ints" in v:
        return [int(x) for x in v["ints"]]
    if "bytes" in v:
        return list(v["bytes"])
    return None
