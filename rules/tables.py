"""Constant-table sanity shared by C06, C09, C12, C17: size classes, free-list head offsets, round-up stride."""
from .model import const_val
from .roles import M_KEY, M_VAL
from .util import where
from .fields import dot
from . import k7


def table(prog, mod, name):
    from .consts import const_value
    return const_value(prog, mod, name)


def check_tables(ctx, prog, R):
    ks, vs = table(prog, M_KEY, "REC_SIZE_ARY"), table(prog, M_VAL, "REC_SIZE_ARY")
    kf, vf = table(prog, M_KEY, "REC_SIZE_FREE_OFFSET"), table(prog, M_VAL, "REC_SIZE_FREE_OFFSET")
    khdr, vhdr = table(prog, M_KEY, "DAT_HEADER_SZ"), table(prog, M_VAL, "DAT_HEADER_SZ")
    if not ctx.check(all(x is not None for x in (ks, vs, kf, vf, khdr, vhdr)), "tables", "present", "size-class / free-list tables or header sizes not found as evaluated constants"):
        return
    for nm, t in (("key", ks), ("val", vs)):
        ctx.check(len(t) == 16, "tables", nm + ":16-classes", "%s size-class table has %d entries, the free-list header has room for 16" % (nm, len(t)))
        ctx.check(all(t[i] < t[i + 1] for i in range(len(t) - 1)), "tables", nm + ":ascending", "%s size classes are not strictly ascending (round-up picks the first class that fits)" % nm)
        ctx.check(all(x % 8 == 0 for x in t), "tables", nm + ":multiple-of-8", "%s size classes are not all multiples of 8 (the size field stores size/8)" % nm)
        ctx.check(t[0] >= 10, "tables", nm + ":min-free-slot", "the smallest %s class (%d) cannot hold a free-slot record (size field + marker + 8-byte next)" % (nm, t[0]))
    ctx.check(ks == vs, "tables", "key==val", "key and value size-class tables differ (the shared free-list code assumes one layout)")
    for nm, t, hdr in (("key", kf, khdr), ("val", vf, vhdr)):
        ctx.check(len(t) == 16 and all(t[i + 1] - t[i] == 8 for i in range(len(t) - 1)), "tables", nm + ":heads-stride-8", "%s free-list heads are not 16 consecutive 8-byte fields" % nm)
        ctx.check(t[0] >= 32 and t[-1] + 8 <= hdr, "tables", nm + ":heads-inside-header", "%s free-list heads [%d..%d] are not inside the header after the fixed fields (header size %d)" % (nm, t[0], t[-1] + 8, hdr))
    # round-up for sizes beyond the last but one class: ((x + S) / S) * S with one stride S, multiple of 8, dividing the last class
    ru = R.need("ROUNDUP")
    consts = []
    for blk in ru.blocks:
        for s in blk["stmts"]:
            if s["s"] == "assign" and s["rhs"]["rv"] == "bin" and s["rhs"]["op"] in ("Add", "AddWithOverflow", "Div", "Mul", "MulWithOverflow"):
                for side in ("a", "b"):
                    v = const_val(s["rhs"][side])
                    if isinstance(v, int) and not isinstance(v, bool):
                        consts.append((s["rhs"]["op"].replace("WithOverflow", ""), v))
    strides = {v for op, v in consts}
    ops = {op for op, v in consts}
    ctx.check(len(strides) == 1 and ops == {"Add", "Div", "Mul"}, "tables", "roundup-stride", "the large-size round-up is not ((x + S) / S) * S with a single stride (constants %s)" % sorted(consts), where=where(ru))
    if len(strides) == 1:
        S = next(iter(strides))
        ctx.check(S % 8 == 0 and ks[-1] % S == 0 and S <= ks[0] * 8, "tables", "roundup-stride-fits", "round-up stride %d is not a multiple of 8 dividing the last class %d" % (S, ks[-1]))
        ctx.check(all((x % S == 0) for x in ks if x >= S), "tables", "classes-on-stride", "classes above the stride are not multiples of it: a large slot's remainder would not be a valid slot size")
    ctx.sample({"rule": "tables", "size_classes": ks, "key_free_heads": [kf[0], kf[-1]], "val_free_heads": [vf[0], vf[-1]]})


def _position_of_equal(prog, fn, L, b):
    """the index is `size_ary.iter().position(|&sz| sz == <size parameter>)` (Some arm)"""
    from .util import origins, leaf_origins
    os_ = origins(prog, fn, {"k": "cp", "pl": {"l": L, "p": []}}, at=b)
    if not os_:
        return False
    for o in os_:
        if not (o.kind == "call" and o.data.get("resolved", "").endswith("::position") or (o.kind == "call" and (o.data.get("callee") or "").endswith("Iterator::position"))):
            return False
        if not any(p_.startswith("dc:Some") for p_ in o.proj):
            return False
        t = o.data
        # receiver: an iterator over the size-class table
        recv = leaf_origins(prog, fn, t["args"][0], at=o.block, terminal_only=True)
        if not (recv and all(x.kind == "param" and x.data == 1 and x.proj and any(p_.endswith(dot(prog, "MGR.sizes")) for p_ in x.proj) for x in recv)):
            return False
        # the closure: element == captured size parameter
        cls = prog.closures_of(fn)
        good = False
        for c in cls:
            conds = [x for blk in c.blocks for x in blk["stmts"] if x["s"] == "assign" and x["rhs"]["rv"] == "bin" and x["rhs"]["op"] == "Eq"]
            if len(conds) == 1:
                rv = conds[0]["rhs"]
                sides = [origins(prog, c, rv["a"]), origins(prog, c, rv["b"])]
                is_elem = lambda s_: bool(s_) and all(x.kind == "param" and x.data == 2 for x in s_)
                is_cap = lambda s_: bool(s_) and all(x.kind == "param" and x.data == 1 for x in s_)
                good = (is_elem(sides[0]) and is_cap(sides[1])) or (is_elem(sides[1]) and is_cap(sides[0]))
                # the captured value is the size parameter of fn
                if good:
                    cap = leaf_origins(prog, fn, t["args"][1], at=o.block, terminal_only=True)
                    good = bool(cap) and all(x.kind == "param" and x.data == 2 for x in cap)
        if not good:
            return False
    return True


def _resolve_place(fn, pl):
    """Look through the temporaries an inlined accessor leaves behind: `_t = copy <place>` (single definition) and a base
    local that is a single-definition copy of the receiver parameter (`_self2 = copy _1`)."""
    for _ in range(8):
        ds = fn.defs().get(pl["l"], [])
        if pl["l"] <= fn.arg_count or len(ds) != 1 or ds[0][1] != "assign" or ds[0][2]["lhs"]["p"]:
            return pl
        rv = ds[0][2]["rhs"]
        if rv["rv"] == "use" and rv["a"].get("k") in ("cp", "mv"):
            src = rv["a"]["pl"]
            pl = {"l": src["l"], "p": list(src["p"]) + list(pl["p"])}
            continue
        if rv["rv"] == "ref" and pl["p"][:1] == ["*"]:
            src = rv["pl"]
            pl = {"l": src["l"], "p": list(src["p"]) + list(pl["p"][1:])}
            continue
        return pl
    return pl


def check_class_slot(ctx, prog, R):
    """The size class of a slot selects its free-list head: wherever the mapping function returns `free_list_offset[j]`,
    either j is the last index (the shared list of large slots) or the return is guarded by `size_ary[j] == <size param>`
    with the *same* index expression j."""
    fn = R.need("FREE_HEAD_OFFSET")
    ctx.touch(fn)
    cn = k7.Canon(prog, fn)
    conds = k7.conditions(prog, fn)
    rets = []
    other_rets = []
    for b, blk in enumerate(fn.blocks):
        if blk["cleanup"]:
            continue
        for st in blk["stmts"]:
            if st["s"] == "assign" and st["lhs"]["l"] == 0 and not st["lhs"]["p"]:
                rv = st["rhs"]
                pl = rv["a"].get("pl") if rv["rv"] == "use" and rv["a"].get("k") in ("cp", "mv") else None
                pl = _resolve_place(fn, pl) if pl else None
                if pl and pl["l"] == 1 and len(pl["p"]) >= 2 and pl["p"][-1].startswith("idx:") and any(e.endswith(dot(prog, "MGR.heads")) for e in pl["p"]):
                    rets.append((b, int(pl["p"][-1][4:])))
                else:
                    other_rets.append(b)
    ctx.floor("class-slot", "returns of a free-list head offset", len(rets), 2)
    ctx.check(not other_rets, "class-slot", "all-returns-from-head-table",
              "%s returns a value that is not an element of the free-list head table" % fn.name, where=where(fn, other_rets[0] if other_rets else None))
    n_eq = n_last = 0
    for b, L in rets:
        cj = cn.op({"k": "cp", "pl": {"l": L, "p": []}}, b)
        is_last = cj[0] == "bin" and cj[1] == "Sub" and cj[2][0] == "len" and cj[3] == ("c", 1) and \
            cj[2][1][0] == "p" and cj[2][1][1] == 1 and any(e.endswith(dot(prog, "MGR.heads")) for e in cj[2][1][2])
        guarded = False
        for (sb, t_true, t_false, c) in conds:
            if c[0] != "Eq" or t_true == t_false or not fn.dominates(t_true, b) or any(p_ != sb for p_ in fn.preds()[t_true]):
                continue
            for x, y in ((c[1], c[2]), (c[2], c[1])):
                if x[0] == "p" and x[1] == 1 and len(x[2]) == 2 and x[2][0].endswith(dot(prog, "MGR.sizes")) and x[2][1].startswith("idx:") \
                        and y[0] == "p" and y[1] == 2 and not y[2]:
                    cm = cn.op({"k": "cp", "pl": {"l": int(x[2][1][4:]), "p": []}}, sb)
                    if k7.same(cm, cj) and cj[0] != "?":
                        guarded = True
        if not guarded and not is_last:
            guarded = _position_of_equal(prog, fn, L, b)
        n_eq += guarded
        n_last += is_last and not guarded
        ctx.check(guarded or is_last, "class-slot", "index-agreement:%s" % k7.expr_str(cj),
                  "%s returns free_list_offset[%s] without having established size_ary[%s] == piece size: the free list of one size class is kept in another class's header slot"
                  % (fn.name, k7.expr_str(cj), k7.expr_str(cj)), where=where(fn, b))
    ctx.check(n_eq >= 1 and n_last >= 1, "class-slot", "both-arms", "expected an equality-guarded class arm and a last-slot arm for large sizes (found %d / %d)" % (n_eq, n_last), where=where(fn))


def check_large_threshold(ctx, prog, R, rule="large-threshold"):
    """`is_large` separates the 15 exact classes from the shared first-fit list: a size is large iff it is >= the last
    entry of the class table.  (A size that *equals* the last entry is on the shared list, although it is "found" in
    the table.)"""
    fn = R.need("IS_LARGE")
    ctx.touch(fn)
    from .util import tracer, origins
    cn = k7.Canon(prog, fn)

    def is_size(c):
        return c[0] == "p" and c[1] == 2 and not c[2]

    def is_last(c, at):
        if not (c[0] == "p" and c[1] == 1 and len(c[2]) == 2 and c[2][0].endswith(dot(prog, "MGR.sizes")) and c[2][1].startswith("idx:")):
            return False
        j = cn.op({"k": "cp", "pl": {"l": int(c[2][1][4:]), "p": []}}, at)
        return j[0] == "bin" and j[1] == "Sub" and j[3] == ("c", 1) and j[2][0] == "len" and j[2][1][0] == "p" and any(e.endswith(dot(prog, "MGR.sizes")) for e in j[2][1][2])
    os_ = tracer(prog, fn).place({"l": 0, "p": []})
    ok = bool(os_)
    for o in os_:
        neg = False
        while o is not None and o.kind == "un" and o.data["op"] == "Not":
            neg = not neg
            q = origins(prog, fn, o.data["a"], at=o.block)
            o = q[0] if len(q) == 1 else None
        if o is None or o.kind != "bin":
            ok = False
            break
        op, a, b = o.data["op"], cn.op(o.data["a"], o.block), cn.op(o.data["b"], o.block)
        if neg:
            op = {"Lt": "Ge", "Gt": "Le", "Ge": "Lt", "Le": "Gt"}.get(op, "?")
        good = (op == "Ge" and is_size(a) and is_last(b, o.block)) or (op == "Le" and is_last(a, o.block) and is_size(b))
        ok = ok and good
    ctx.check(ok, rule, "is_large", "a slot size is not classified as large exactly when it is >= the last entry of the size-class table: "
              "slots of that size would be popped from / pushed to the wrong kind of free list", where=where(fn))
