"""Constant-table sanity shared by C06, C09, C12, C17: size classes, free-list head offsets, round-up stride."""
from .model import const_val
from .roles import M_KEY, M_VAL
from .util import where


def table(prog, mod, name):
    c = prog.consts.get(mod + "::" + name)
    if not c or not isinstance(c.get("v"), dict):
        return None
    v = c["v"]
    if "ints" in v:
        return [int(x) for x in v["ints"]]
    if "bytes" in v:
        return list(v["bytes"])
    if "int" in v:
        return int(v["int"])
    return None


def check_tables(ctx, prog, R):
    ks, vs = table(prog, M_KEY, "REC_SIZE_ARY"), table(prog, M_VAL, "REC_SIZE_ARY")
    kf, vf = table(prog, M_KEY, "REC_SIZE_FREE_OFFSET"), table(prog, M_VAL, "REC_SIZE_FREE_OFFSET")
    khdr, vhdr = table(prog, M_KEY, "DAT_HEADER_SZ"), table(prog, M_VAL, "DAT_HEADER_SZ")
    if not ctx.check(all(x is not None for x in (ks, vs, kf, vf, khdr, vhdr)), "tables", "present", "size-class / free-list tables or header sizes not found as evaluated constants"):
        return
    for nm, t in (("key", ks), ("val", vs)):
        ctx.check(len(t) == 16, "tables", nm + ":16-classes", "%s size-class table has %d entries, the free-list header has room for 16" % (nm, len(t)))
        ctx.check(all(t[i] < t[i + 1] for i in range(len(t) - 1)), "tables", nm + ":ascending", "%s size classes are not strictly ascending (round-up picks the first class that fits)" % nm)
        ctx.check(all(x % 8 == 0 for x in t), "tables", nm + ":multiple-of-8", "%s size classes are not all multiples of 8 (the size field stores size/8)" % nm)
        ctx.check(t[0] >= 10, "tables", nm + ":min-free-slot", "the smallest %s class (%d) cannot hold a free-slot record (size field + marker + 8-byte next)" % (nm, t[0]))
    ctx.check(ks == vs, "tables", "key==val", "key and value size-class tables differ (the shared free-list code assumes one layout)")
    for nm, t, hdr in (("key", kf, khdr), ("val", vf, vhdr)):
        ctx.check(len(t) == 16 and all(t[i + 1] - t[i] == 8 for i in range(len(t) - 1)), "tables", nm + ":heads-stride-8", "%s free-list heads are not 16 consecutive 8-byte fields" % nm)
        ctx.check(t[0] >= 32 and t[-1] + 8 <= hdr, "tables", nm + ":heads-inside-header", "%s free-list heads [%d..%d] are not inside the header after the fixed fields (header size %d)" % (nm, t[0], t[-1] + 8, hdr))
    # round-up for sizes beyond the last but one class: ((x + S) / S) * S with one stride S, multiple of 8, dividing the last class
    ru = R.need("ROUNDUP")
    consts = []
    for blk in ru.blocks:
        for s in blk["stmts"]:
            if s["s"] == "assign" and s["rhs"]["rv"] == "bin" and s["rhs"]["op"] in ("Add", "AddWithOverflow", "Div", "Mul", "MulWithOverflow"):
                for side in ("a", "b"):
                    v = const_val(s["rhs"][side])
                    if isinstance(v, int) and not isinstance(v, bool):
                        consts.append((s["rhs"]["op"].replace("WithOverflow", ""), v))
    strides = {v for op, v in consts}
    ops = {op for op, v in consts}
    ctx.check(len(strides) == 1 and ops == {"Add", "Div", "Mul"}, "tables", "roundup-stride", "the large-size round-up is not ((x + S) / S) * S with a single stride (constants %s)" % sorted(consts), where=where(ru))
    if len(strides) == 1:
        S = next(iter(strides))
        ctx.check(S % 8 == 0 and ks[-1] % S == 0 and S <= ks[0] * 8, "tables", "roundup-stride-fits", "round-up stride %d is not a multiple of 8 dividing the last class %d" % (S, ks[-1]))
        ctx.check(all((x % S == 0) for x in ks if x >= S), "tables", "classes-on-stride", "classes above the stride are not multiples of it: a large slot's remainder would not be a valid slot size")
    ctx.sample({"rule": "tables", "size_classes": ks, "key_free_heads": [kf[0], kf[-1]], "val_free_heads": [vf[0], vf[-1]]})
