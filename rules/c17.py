"""C17 - storage statistics calls report the true structure (sibling agreement; thin by nature)."""
import re
from .model import short, const_val
from .roles import free_head_components, Roles, INNER, KEYFILE, VALFILE, M_KEY, M_VAL
from .util import ret_agg_blocks, where, origins, calls_to, leaf_origins, in_cycle, find_bool_split, region_dominated, tracer, is_call_to, field_stores
from .fields import dot, fq
from . import flushpath as fp, k7

EXPLANATION = (
    "Sibling agreement (K4) for the diagnostic calls: (1) count_of_free_{key,value}_piece iterate over their own file's "
    "16-entry size-class table and call the free-list counter on their own file with that class, returning (class, count) "
    "pairs; the counter starts at the class's header head, follows the free-slot next link until zero and adds one per "
    "hop; (2) the key and value variants of *_piece_size_stats / *_length_stats are the same function modulo the "
    "Key<->Value renaming, each walks the slots of its own file, reads size / length at the yielded offset and counts "
    "only on the non-zero-length arm; the slot walk starts at the end of the header, advances by the size stored at the "
    "current offset and stops at the end of file; (3) htx_filling_rate_per_mill loops over 0..cached bucket count, "
    "reads each bucket head and counts the non-zero ones, per-mille = count*1000/buckets; (4) the FileDbMap impl of "
    "CheckFileDbMap forwards every method to the same-named inner method.")
NOT_DECIDED = ("equality of the figures with an independent decoding of the files; termination on every reachable state "
               "(the slot walk terminates iff the slots tile the file, see C06).")
ASSUMPTIONS = ["BTree/Vec helpers used to accumulate the histograms behave as documented"]

CHECK = "abyssiniandb::filedb::CheckFileDbMap"
METHODS = ["count_of_free_key_piece", "count_of_free_value_piece", "key_piece_size_stats", "value_piece_size_stats",
           "keys_count_stats", "key_length_stats", "value_length_stats", "htx_filling_rate_per_mill"]


def _by_sig(prog, owner, pref, n_inputs, out_pat, trait=False, extra=None):
    """A method of `owner` by preferred name, else the unique one with this arity / return type (private names may change)."""
    c = [f for f in prog.fns.values() if f.impl_self_adt == owner and f.crate == "abyssiniandb" and f.kind == "AssocFn" and (f.impl_trait is not None) == trait]
    byname = [f for f in c if f.name == pref]
    if len(byname) == 1:
        return byname
    got = [f for f in c if len(f.inputs) == n_inputs and out_pat in short(f.output) and (extra is None or extra(f))]
    return got if len(got) == 1 else []


def _K(kind):
    return "Key" if kind == "key" else "Value"


def walk_getter(prog, kind):
    return _by_sig(prog, INNER, "%s_piece_offset_iter" % kind, 1, "%sPieceOffsetIter" % _K(kind))


def length_loader(prog, kind):
    return _by_sig(prog, INNER, "load_%s_length" % kind, 2, "Result<Length<%s>" % _K(kind))


def size_loader(prog, kind):
    return _by_sig(prog, INNER, "load_%s_piece_size" % kind, 2, "Result<Size<Piece<%s>>" % _K(kind))


def file_walker(prog, owner, kind):
    return _by_sig(prog, owner, "piece_offset_iter", 1, "%sPieceOffsetIter" % _K(kind))


def piecea(prog, owner):
    """{'size','start','end'} -> the PieceA methods of a record file, by arity and by whether they touch the file."""
    ms = [f for f in prog.fns.values() if f.impl_self_adt == owner and (f.impl_trait or "").endswith("::PieceA")]
    out = {}
    for f in ms:
        if len(f.inputs) == 2:
            out["size"] = f
        elif any((t.get("callee") or "").startswith("abyssiniandb::") for b, t in f.calls() if not f.is_cleanup(b) and "::new" not in (t.get("callee") or "")):
            out["end"] = f
        else:
            out["start"] = f
    return out if len(ms) == 3 and len(out) == 3 else {}


def _sizes_const(prog, mod):
    from .consts import const_id
    return const_id(prog, mod, "REC_SIZE_ARY") or (mod + "::REC_SIZE_ARY")


def _mgr_built_with(prog, mod):
    """The slot manager of the record file of module `mod` is constructed with that module's REC_SIZE_ARY."""
    from .fields import PIECEMGR
    news = prog.find(name="new", self_adt=PIECEMGR)
    if len(news) != 1:
        return False
    sites = [(c, b) for c, b in prog.callers().get(news[0].id, []) if c.module == mod]
    if len(sites) != 1:
        return False
    c, b = sites[0]
    want = None
    for blk in c.blocks:
        for st in blk["stmts"]:
            if st["s"] == "assign" and st["rhs"]["rv"] == "use" and st["rhs"]["a"].get("cdef") == _sizes_const(prog, mod):
                want = tuple(int(x) for x in st["rhs"]["a"]["v"].get("ints", []))
    if not want:
        return False
    for a in c.term(b)["args"]:
        o = leaf_origins(prog, c, a, at=b)
        if o and all(x.kind == "const" and x.data == want for x in o):
            return True
    return False


def _check_own(ctx):
    prog = ctx.prog
    R = Roles(prog)
    # ---- (4) forwarding
    n = 0
    for m in METHODS:
        h = prog.find(name=m, self_adt=fp.FILEDBMAP, trait=CHECK)
        i = prog.find(name=m, self_adt=INNER, trait=CHECK)
        if not ctx.check(len(h) == 1 and len(i) == 1, "forwarding", m + ":anchor", "CheckFileDbMap::%s not found on handle and inner type" % m):
            continue
        n += 1
        ctx.touch(h[0])
        sites = calls_to(prog, h[0], target_fn=i[0])
        crate_calls = [t["callee"] for b, t in h[0].calls() if (t.get("callee") or "").startswith("abyssiniandb::")]
        ret = tracer(prog, h[0]).place({"l": 0, "p": []})
        ctx.check(len(sites) == 1 and len(crate_calls) == 1 and bool(ret) and all(is_call_to(prog, h[0], o, i[0]) and not o.proj for o in ret), "forwarding", m,
                  "FileDbMap::%s does not forward to the inner map's %s" % (m, m), where=where(h[0]))
    ctx.floor("forwarding", "CheckFileDbMap methods", n, 8)
    # ---- (1) free counts
    fc = R.need("FREE_COUNT")
    for kind, owner, mod, m in (("key", KEYFILE, M_KEY, "count_of_free_key_piece"), ("val", VALFILE, M_VAL, "count_of_free_value_piece")):
        fs = prog.find(name=m, self_adt=owner)
        inner = prog.find(name=m, self_adt=INNER, trait=CHECK)
        if not ctx.check(len(fs) == 1 and len(inner) == 1, "free-count", kind + ":anchor", "%s not found" % m):
            continue
        f = fs[0]
        ctx.touch(f, len(f.blocks))
        # inner forwards to its own file
        s = calls_to(prog, inner[0], target_fn=f)
        ok = len(s) == 1
        if ok:
            o = origins(prog, inner[0], s[0][1]["args"][0], at=s[0][0])
            want = dot(prog, "INNER.key_file") if kind == "key" else dot(prog, "INNER.val_file")
            ok = bool(o) and all(x.kind == "param" and x.proj and x.proj[-1].endswith(want) for x in o)
        ctx.check(ok, "free-count", kind + ":own-file", "the inner %s does not ask its own %s file" % (m, kind), where=where(inner[0]))
        # iterates the file's own table
        from .consts import _cdefs
        tabs = sorted({c for c, ty, v in _cdefs(f) if ty.startswith("[u32; ")})
        tab = tabs[0] if len(tabs) == 1 else None
        # ... named directly, or through the table its own file's slot manager was built with (class-slot rules of C06
        # decide that the manager's table is the file's)
        mgr_tab = lambda os_: bool(os_) and all(x.proj and x.proj[-1].endswith(fq(prog, "MGR.sizes")) and len([p_ for p_ in x.proj if p_.endswith(fq(prog, "MGR.sizes"))]) == 1
                                                 and (x.kind == "param" and x.data == 1 or x.kind == "call" and (x.data.get("callee") or "").endswith(("borrow_mut", "borrow", "deref", "deref_mut"))) for x in os_)
        via_mgr = False
        if tab is None:
            its = [(bb, tt) for bb, tt in f.calls() if (tt.get("callee") or "").endswith(("IntoIterator::into_iter", "]>::iter", "::iter")) and not f.is_cleanup(bb)]
            via_mgr = len(its) == 1 and mgr_tab(leaf_origins(prog, f, its[0][1]["args"][0], at=its[0][0], terminal_only=True)) and _mgr_built_with(prog, mod)
        ctx.check(tab == _sizes_const(prog, mod) or via_mgr, "free-count", kind + ":own-table", "%s iterates %s, expected its own size-class table" % (m, tab), where=where(f))
        # the per-class body is either the body of a loop in f or a closure mapped over the table
        sites = calls_to(prog, f, target_fn=fc)
        body, elem_ok = f, None
        if len(sites) == 1 and in_cycle(f, sites[0][0]):
            elem_ok = lambda os_: bool(os_) and all(x.kind == "call" and (x.data.get("callee") or "").endswith("Iterator::next") for x in os_)
            nx = [(bb, tt) for bb, tt in f.calls() if (tt.get("callee") or "").endswith("Iterator::next")]
            ok = len(nx) == 1
        else:
            cls = [c for c in prog.closures_of(f) if calls_to(prog, c, target_fn=fc)]
            ok = len(cls) == 1 and not sites
            if ok:
                body = cls[0]
                sites = calls_to(prog, body, target_fn=fc)
                ok = len(sites) == 1 and not in_cycle(body, sites[0][0])
                elem_ok = lambda os_: bool(os_) and all(x.kind == "param" and x.data == 2 and not [p_ for p_ in x.proj if p_.startswith(("idx", "sub"))] for x in os_)
                maps = [(bb, tt) for bb, tt in f.calls() if (tt.get("callee") or "").endswith(("Iterator::map", "Iterator::for_each", "Iterator::try_for_each"))]
                ok = ok and len(maps) == 1
        if ok:
            b, t = sites[0]
            a = leaf_origins(prog, body, t["args"][1], at=b, terminal_only=True)
            ok = elem_ok(a)
            # the iteration is over the 16-entry table
            from .util import assert_only_blocks
            ii = [(bb, tt) for bb, tt in f.calls() if (tt.get("callee") or "").endswith(("IntoIterator::into_iter", "]>::iter", "::iter"))
                  and bb not in assert_only_blocks(f)]
            ok = ok and len(ii) == 1
            if ok:
                src = leaf_origins(prog, f, ii[0][1]["args"][0], at=ii[0][0], terminal_only=True)
                ok = bool(src) and (all(x.kind == "const" and isinstance(x.data, tuple) and len(x.data) == 16 for x in src) or (via_mgr and mgr_tab(src)))
            # reported pair = (class, count)
            pairs = []
            for bb, blk in enumerate(body.blocks):
                if blk["cleanup"]:
                    continue
                for st in blk["stmts"]:
                    if st["s"] == "assign" and st["rhs"]["rv"] == "agg" and st["rhs"].get("agg") == "tuple" and len(st["rhs"]["ops"]) == 2:
                        c1 = leaf_origins(prog, body, st["rhs"]["ops"][1], at=bb, terminal_only=True)
                        if c1 and all(is_call_to(prog, body, y, fc) for y in c1):
                            pairs.append((bb, st))
            ok = ok and len(pairs) == 1
            if ok:
                c0 = leaf_origins(prog, body, pairs[0][1]["rhs"]["ops"][0], at=pairs[0][0], terminal_only=True)
                ok = elem_ok(c0)
        ctx.check(ok, "free-count", kind + ":per-class", "%s does not report (class, free-list length of that class) for each of the 16 classes" % m, where=where(f))
    # the counter
    ctx.touch(fc, len(fc.blocks))
    hr = calls_to(prog, fc, target_fn=R.need("FREE_HEAD_READ"))
    sn = calls_to(prog, fc, target_fn=R.need("FREE_SIZE_NEXT"))
    ok = len(hr) == 1 and len(sn) == 1 and in_cycle(fc, sn[0][0]) and not in_cycle(fc, hr[0][0])
    if ok:
        a = origins(prog, fc, hr[0][1]["args"][1], at=hr[0][0])
        ok = bool(a) and all(x.kind == "param" and x.data == 2 for x in a)
        cur = origins(prog, fc, sn[0][1]["args"][1], at=sn[0][0])
        ok = ok and bool(cur) and all(is_call_to(prog, fc, x, R.need("FREE_HEAD_READ")) or (is_call_to(prog, fc, x, R.need("FREE_SIZE_NEXT")) and x.proj[-1] == free_head_components(prog, R)[1]) for x in cur)
        ok = ok and any(is_call_to(prog, fc, x, R.need("FREE_HEAD_READ")) for x in cur) and any(is_call_to(prog, fc, x, R.need("FREE_SIZE_NEXT")) for x in cur)
    ctx.check(ok, "free-count", "walk", "the free-list counter does not walk head -> next -> ... of the list selected by its size argument", where=where(fc))
    # one increment per hop
    cn = k7.Canon(prog, fc)
    incs = []
    for b, blk in enumerate(fc.blocks):
        if blk["cleanup"]:
            continue
        for s in blk["stmts"]:
            if s["s"] == "assign" and s["rhs"]["rv"] == "bin" and s["rhs"]["op"] in ("Add", "AddWithOverflow") and const_val(s["rhs"]["b"]) == 1:
                incs.append(b)
    ret = leaf_origins(prog, fc, {"k": "cp", "pl": {"l": 0, "p": []}}, terminal_only=True)
    ok = len(incs) == 1 and in_cycle(fc, incs[0]) and bool(sn) and (fc.dominates(incs[0], sn[0][0]) or fc.dominates(sn[0][0], incs[0]))
    # ... on *every* trip round the loop: the hop cannot be repeated without passing the increment
    ok = ok and sn[0][0] not in fc.reachable_ok(fc.normal_succs(sn[0][0]), avoid={incs[0]})
    ctx.check(ok, "free-count", "one-per-hop", "the free-list counter does not add exactly one per visited slot", where=where(fc))
    # ---- (2) key/value siblings
    pairs = [("key_piece_size_stats", "value_piece_size_stats"), ("key_length_stats", "value_length_stats")]
    for km, vm in pairs:
        kf = prog.find(name=km, self_adt=INNER, trait=CHECK)
        vf = prog.find(name=vm, self_adt=INNER, trait=CHECK)
        if not ctx.check(len(kf) == 1 and len(vf) == 1, "siblings", km + ":anchor", "%s / %s not found" % (km, vm)):
            continue
        kf, vf = kf[0], vf[0]
        ctx.touch(kf, len(kf.blocks))
        ctx.touch(vf, len(vf.blocks))
        for f, kind in ((kf, "key"), (vf, "value")):
            wg = walk_getter(prog, kind)
            walk = calls_to(prog, f, target_fn=wg[0]) if wg else []
            ok = len(walk) == 1
            touch = [(b, t) for b, t in f.calls() if (t.get("callee") or "").rsplit("::", 1)[-1] in ("touch_size", "touch_length")]
            ll = length_loader(prog, kind)
            lens = calls_to(prog, f, target_fn=ll[0]) if ll else []
            ok = ok and len(touch) == 1 and len(lens) == 1 and in_cycle(f, touch[0][0])
            if ok:
                # loads use the offset yielded by the walk
                a = leaf_origins(prog, f, lens[0][1]["args"][1], at=lens[0][0], terminal_only=True)
                ok = bool(a) and all(x.kind == "call" and (x.data.get("callee") or "").endswith("Iterator::next") for x in a)
                from .util import zero_splits, value_origins
                zs = zero_splits(prog, f, lambda a_: all(y.kind == "call" and y.block == lens[0][0] for y in a_))
                ok = ok and len(zs) == 1 and touch[0][0] in region_dominated(f, zs[0]["false"])
            ctx.check(ok, "siblings", f.name + ":counts-live-only", "%s does not walk its own file's slots and count only records with a non-zero length" % f.name, where=where(f))
            # every slot is visited: once the walk has produced a slot, the only ways on are back to the walk or out with an error
            nx = [(b, t) for b, t in f.calls() if (t.get("callee") or "").endswith("Iterator::next")]
            w2e = len(nx) == 1 and in_cycle(f, nx[0][0])
            if w2e:
                from .util import enum_switches
                sws = [sw for sw in enum_switches(prog, f) if sw["src"] and all(x.kind == "call" and x.block == nx[0][0] and not x.proj for x in sw["src"])]
                w2e = len(sws) == 1 and sws[0]["targets"].get(1) is not None
                if w2e:
                    some_e = sws[0]["targets"][1]
                    w2e = not any(rb in f.reachable_ok(some_e, avoid={nx[0][0]}) for rb in f.return_blocks())
            ctx.check(w2e, "siblings", f.name + ":walks-to-the-end", "%s can stop before the slot walk is exhausted: slots behind that point are not counted" % f.name, where=where(f))
    # own-file walkers
    for kind, fld in (("key", dot(prog, "INNER.key_file")), ("value", dot(prog, "INNER.val_file"))):
        w = walk_getter(prog, kind)
        ok = len(w) == 1
        if ok:
            fw = file_walker(prog, KEYFILE if kind == "key" else VALFILE, kind)
            c = calls_to(prog, w[0], target_fn=fw[0]) if fw else []
            ok = len(c) == 1
            if ok:
                o = origins(prog, w[0], c[0][1]["args"][0], at=c[0][0])
                ok = bool(o) and all(x.kind == "param" and x.proj and x.proj[-1].endswith(fld) for x in o)
        ctx.check(ok, "siblings", kind + ":walks-own-file", "the %s slot walk is not over the map's own %s file" % (kind, kind))
    # the slot walk itself
    sw = R.need("SLOT_WALK")
    ctx.touch(sw, len(sw.blocks))
    ps = [(b, t) for b, t in sw.calls() if (t.get("callee") or "").endswith("PieceA::piece_size")]
    ad = [(b, t) for b, t in sw.calls() if (t.get("callee") or "") == "core::ops::arith::Add::add"]
    ok = len(ps) == 1 and len(ad) == 1 and sw.dominates(ps[0][0], ad[0][0])
    if ok:
        o0 = origins(prog, sw, ad[0][1]["args"][0], at=ad[0][0])
        o1 = origins(prog, sw, ad[0][1]["args"][1], at=ad[0][0])
        po = origins(prog, sw, ps[0][1]["args"][1], at=ps[0][0])
        ok = {x.key() for x in o0} == {x.key() for x in po} and bool(o1) and all(x.kind == "call" and x.block == ps[0][0] for x in o1)
        ok = ok and all(x.kind == "param" and x.proj and x.proj[-1].endswith(dot(prog, "WALK.cur")) for x in po)
    ctx.check(ok, "slot-walk", "advance-by-stored-size", "the slot walk does not advance by the size stored at the current offset", where=where(sw))
    somes_w = [b for b, s_ in ret_agg_blocks(sw, "core::option::Option", "Some")] if True else []
    facts = [(sb, tg) for (sb, tg, X, Y) in k7.lt_facts(prog, sw) if Y[0] == "p" and Y[2] and Y[2][-1].endswith(dot(prog, "WALK.end"))]
    ok = bool(facts) and bool(somes_w) and all(any(sw.dominates(tg, sb_) and all(p_ == fb for p_ in sw.preds()[tg]) for fb, tg in facts) for sb_ in somes_w)
    ctx.check(ok, "slot-walk", "stops-at-end", "the slot walk does not stop at the end of the file (next < end)", where=where(sw))
    for kind, owner, mod in (("key", KEYFILE, M_KEY), ("val", VALFILE, M_VAL)):
        st = [piecea(prog, owner)["start"]] if piecea(prog, owner) else []
        ok = len(st) == 1
        if ok:
            o = leaf_origins(prog, st[0], {"k": "cp", "pl": {"l": 0, "p": []}}, terminal_only=True)
            from .consts import const_id
            c = prog.consts.get(const_id(prog, mod, "DAT_HEADER_SZ") or "")
            ok = bool(o) and c is not None and all(x.kind == "const" and x.data == int(c["v"]["int"]) for x in o)
        ctx.check(ok, "slot-walk", kind + ":starts-after-header", "the %s slot walk does not start right after the header" % kind)
    # ---- (2b) the figures are the stored fields themselves, and the walk's size reader touches nothing but the size field
    from .util import stored_value_sources, reachable_fns
    from .roles import M_VFILE
    want = {"load_key_piece_size": ("R_PIECE_SIZE", size_loader(prog, "key")), "load_value_piece_size": ("R_PIECE_SIZE", size_loader(prog, "value")),
            "load_key_length": ("R_KEY_LEN", length_loader(prog, "key")), "load_value_length": ("R_VAL_LEN", length_loader(prog, "value"))}
    n_src = 0
    for nm, (role, fs) in want.items():
        if not ctx.check(len(fs) == 1, "stat-is-stored-field", nm + ":anchor", "%s not found" % nm):
            continue
        src = stored_value_sources(prog, fs[0], M_VFILE)
        n_src += 1
        ctx.check(src == {R.need(role).id}, "stat-is-stored-field", nm,
                  "%s does not return the stored field as read by %s (sources: %s): the histogram would report something else than the file holds"
                  % (nm, R.need(role).name, sorted(short(x) for x in src)), where=where(fs[0]))
    readers = {R.need(r).id: r for r in ("R_PIECE_SIZE", "R_PIECE_OFFSET", "R_KEY_LEN", "R_VAL_LEN", "R_FREE_OFFSET")}
    sizers = [piecea(prog, o_)["size"] for o_ in (KEYFILE, VALFILE) if piecea(prog, o_)]
    ctx.floor("stat-is-stored-field", "PieceA::piece_size implementations", len(sizers), 2)
    for f in sizers:
        kind = "key" if "KeyFile" in (f.impl_self_adt or "") else "val"
        src = stored_value_sources(prog, f, M_VFILE)
        n_src += 1
        ctx.check(src == {R.need("R_PIECE_SIZE").id}, "stat-is-stored-field", "walk-stride:" + kind,
                  "the %s slot walk's stride is not the stored size field (sources: %s)" % (kind, sorted(short(x) for x in src)), where=where(f))
        reach = reachable_fns(prog, [f], crates=("abyssiniandb",))
        got = sorted(readers[i] for i in reach if i in readers)
        shallow = reachable_fns(prog, [f], crates=("abyssiniandb",), stop=set(readers))
        payload = sorted({(t.get("callee") or "").rsplit("::", 1)[-1] for g in shallow.values() for b, t in g.calls()
                          if (t.get("callee") or "").rsplit("::", 1)[-1] in ("read_exact_maybeslice", "read_exact", "read_to_end")})
        ctx.check(got == ["R_PIECE_SIZE"] and not payload, "slot-walk", "size-reader-minimal:" + kind,
                  "the %s slot walk's size reader also decodes %s: a free slot holds a free-list link where a live record has its other fields, so the walk fails or goes astray on files with free slots"
                  % (kind, [x for x in got if x != "R_PIECE_SIZE"] + payload), where=where(f))
    ctx.floor("stat-is-stored-field", "figure sources traced", n_src, 6)
    # ---- (3) filling rate
    hf = R.need("HTX_FILL")
    ctx.touch(hf, len(hf.blocks))
    bl = calls_to(prog, hf, target_fn=R.need("BUCKET_LOAD"))
    ok = len(bl) == 1 and in_cycle(hf, bl[0][0])
    idx_locals = set()
    if ok:
        from .util import full_range_index, zero_splits
        rng = full_range_index(prog, hf, bl[0][1]["args"][1], bl[0][0])
        ok = rng is not None and rng[0] == ("c", 0) and rng[1][0] in ("p", "call?", "var") and len(rng[1]) > 2 and rng[1][2] \
            and str(rng[1][2][-1]).endswith(fq(prog, "HTXCACHE.buckets_size"))
        c_idx = k7.Canon(prog, hf).op(bl[0][1]["args"][1], bl[0][0])
        if c_idx[0] == "var":
            idx_locals.add(c_idx[1])
    ctx.check(ok, "filling-rate", "all-buckets", "htx_filling_rate_per_mill does not read every bucket 0..cached bucket count", where=where(hf))
    from .util import zero_splits
    zs = zero_splits(prog, hf, lambda a_: bool(bl) and all(is_call_to(prog, hf, y, R.need("BUCKET_LOAD")) for y in a_))
    # the counter: the one `x = x + 1` in the loop that is not the loop index
    incs = []
    cn_ = k7.Canon(prog, hf)
    for b_, blk in enumerate(hf.blocks):
        if blk["cleanup"] or not in_cycle(hf, b_):
            continue
        for s_ in blk["stmts"]:
            if s_["s"] == "assign" and s_["rhs"]["rv"] == "bin" and s_["rhs"]["op"] in ("Add", "AddWithOverflow") and const_val(s_["rhs"]["b"]) == 1 \
                    and s_["rhs"]["a"].get("k") in ("cp", "mv"):
                root = cn_.root(s_["rhs"]["a"])["pl"]["l"]
                if root not in idx_locals and not (hf.local_ty(root) or "").startswith("core::ops::range"):
                    incs.append(b_)
    ok = len(zs) == 1 and len(incs) == 1 and incs[0] in region_dominated(hf, zs[0]["false"])
    if not ok and not zs:
        ok = _counts_by_bool(prog, hf, R, bl)
    ctx.check(ok, "filling-rate", "counts-non-empty", "the filling figure does not count exactly the non-empty buckets", where=where(hf))
    cn = k7.Canon(prog, hf)
    pm = None
    for b, s in [(b, s) for b, blk in enumerate(hf.blocks) for s in blk["stmts"] if not blk["cleanup"] and s["s"] == "assign" and s["rhs"]["rv"] == "bin" and s["rhs"]["op"] == "Div"]:
        e = cn.op({"k": "cp", "pl": s["lhs"]}, b) if False else ("bin", "Div", cn.op(s["rhs"]["a"], b), cn.op(s["rhs"]["b"], b))
        pm = e
    ok = pm is not None and pm[2][0] == "bin" and pm[2][1] == "Mul" and ("c", 1000) in (pm[2][2], pm[2][3]) and pm[3][0] in ("p", "var", "call?", "?") or \
        (pm is not None and pm[2][0] == "bin" and pm[2][1] == "Mul" and ("c", 1000) in (pm[2][2], pm[2][3]))
    ctx.check(ok, "filling-rate", "per-mille", "the per-mille figure is not count * 1000 / buckets (%s)" % (k7.expr_str(pm) if pm else None), where=where(hf))


def _counts_by_bool(prog, hf, R, bl):
    """branch-free counting: `count + u64::from(!head.is_zero())` / `count + (head != 0) as u64` once per bucket"""
    from .util import value_origins
    adds = []
    for b_, blk in enumerate(hf.blocks):
        if blk["cleanup"] or not in_cycle(hf, b_):
            continue
        for s_ in blk["stmts"]:
            if s_["s"] == "assign" and s_["rhs"]["rv"] == "bin" and s_["rhs"]["op"] in ("Add", "AddWithOverflow"):
                for side in ("a", "b"):
                    for o in origins(prog, hf, s_["rhs"][side], at=b_) if s_["rhs"][side].get("k") in ("cp", "mv") else []:
                        src = None
                        if o.kind == "call" and (o.data.get("callee") or "").endswith(("From::from", "Into::into")) and o.data.get("args"):
                            src = o.data["args"][0]
                            at = o.block
                        if src is None:
                            continue
                        for q in origins(prog, hf, src, at=at):
                            neg = False
                            while q is not None and q.kind == "un" and q.data["op"] == "Not":
                                neg = not neg
                                qq = origins(prog, hf, q.data["a"], at=q.block)
                                q = qq[0] if len(qq) == 1 else None
                            if q is None:
                                continue
                            if q.kind == "bin" and q.data["op"] in ("Ne", "Eq") and (q.data["op"] == "Ne") != neg:
                                # `head.as_value() != 0` (or `!(x == 0)`): one side the constant zero, the other the bucket head
                                from .model import const_val as _cv
                                for x_, z_ in ((q.data["a"], q.data["b"]), (q.data["b"], q.data["a"])):
                                    if _cv(z_) == 0 and x_.get("k") in ("cp", "mv"):
                                        xs = value_origins(prog, hf, x_, q.block)
                                        if xs and bl and all(is_call_to(prog, hf, y, R.need("BUCKET_LOAD")) for y in xs):
                                            adds.append(b_)
                                continue
                            is_zero_call = q.kind == "call" and (q.data.get("callee") or "").rsplit("::", 1)[-1] in ("is_zero", "_is_zero") and q.data.get("args")
                            if is_zero_call and neg:
                                xs = value_origins(prog, hf, q.data["args"][0], q.block)
                                if xs and bl and all(is_call_to(prog, hf, y, R.need("BUCKET_LOAD")) for y in xs):
                                    adds.append(b_)
    return len(adds) == 1


def _shape(fn):
    """Normalised call sequence + branch structure with Key/Value renamed away."""
    out = []
    for b, blk in enumerate(fn.blocks):
        if blk["cleanup"]:
            continue
        t = blk["term"]
        if not t:
            continue
        if t["t"] == "call":
            c = t.get("callee") or "?"
            c = re.sub(r"(?i)key|value|val", "X", c)
            out.append("call:" + c + ":" + str(len(t["args"])))
        elif t["t"] == "switch":
            out.append("switch:%d" % len(t["targets"]))
        elif t["t"] in ("return",):
            out.append(t["t"])
    return out


def check(ctx):
    _check_own(ctx)
    from .engine import import_rules
    # the statistics read record fields: they must read them where the layout puts them
    import_rules(ctx, "c05", {"field-position"})
    # ... and the slot walk steps by the size stored in every slot, free ones included
    import_rules(ctx, "c06", {"free-slot-field-position", "class-slot", "push-pop-inverse", "writer-arms", "large-threshold"})
    # a statistics call that answers Err for a legitimate structure does not report it
    import_rules(ctx, "c08", {"refusal"})
