"""K7a: guard dominance for checked unsigned subtraction (a pure CFG/def-use fact, no arithmetic solving)."""
from .model import const_val, short, Tracer, Origin
from .util import tracer, bool_switches, where

IDENTITY_SUFFIX = ("::new", "::as_value", "::into", "::from")
IDENTITY_MODULE = "abyssiniandb::filedb::inner::semtype::"
SUB_OPS = ("Sub", "SubWithOverflow")
ADD_OPS = ("Add", "AddWithOverflow")
MUL_OPS = ("Mul", "MulWithOverflow")


UNSIGNED = ["u8", "u16", "u32", "u64", "usize", "u128"]


NEWTYPE_VAL = {"f:Offset.val", "f:Size.val", "f:Length.val", "f:Count.val", "f:HashValue.val"}


def _is_identity(t):
    c = t.get("callee") or ""
    if c.startswith(IDENTITY_MODULE) and c.endswith(("::new", "::as_value")):
        return True
    if c in ("core::convert::Into::into", "core::convert::From::from") and t.get("gargs"):
        # conversions between the semantic newtypes and their integer representation
        if any(g.startswith(IDENTITY_MODULE) for g in t["gargs"]):
            return True
        # lossless widening between unsigned integer types (`u64::from(x)` for `x as u64`)
        ints = [g for g in t["gargs"] if g in UNSIGNED]
        if len(ints) == 2 and len(t["gargs"]) == 2:
            a, b = (UNSIGNED.index(g) for g in ints)
            return True if a != b else True
    return False


class Canon:
    def __init__(self, prog, fn):
        self.prog = prog
        self.fn = fn
        self.tr = tracer(prog, fn)

    def op(self, op, at, depth=0):
        if op.get("k") == "c":
            v = const_val(op)
            if isinstance(v, int) and not isinstance(v, bool):
                return ("c", v)
            return ("c?", str(v))
        if op.get("k") not in ("cp", "mv"):
            return ("?",)
        op = self.root(op)
        os_ = self.tr.operand(op, at=at)
        return self.from_origins(os_, op, at, depth)

    def root(self, op):
        """Follow single-definition whole-local copies back to the user variable."""
        for _ in range(10):
            pl = op["pl"]
            if pl["p"] or pl["l"] <= self.fn.arg_count:
                return op
            ds = self.fn.defs().get(pl["l"], [])
            if len(ds) != 1 or ds[0][1] != "assign":
                return op
            rv = ds[0][2]["rhs"]
            if ds[0][2]["lhs"]["p"] or rv["rv"] != "use" or rv["a"].get("k") not in ("cp", "mv") or rv["a"]["pl"]["p"]:
                return op
            if self.fn.local_name(pl["l"]):
                return op
            op = rv["a"]
        return op

    def from_origins(self, os_, op, at, depth):
        pl = op["pl"]
        if depth > 12:
            return ("?",)
        if len(os_) == 1 and os_[0].proj and os_[0].proj[-1] in NEWTYPE_VAL:
            # `x.val` of a semantic newtype is `x.as_value()`: the wrapper and its representation are one value
            o0 = os_[0]
            os_ = [Origin(o0.kind, o0.data, o0.proj[:-1], o0.block)]
        if len(os_) != 1:
            name = self.fn.local_name(pl["l"]) or "_%d" % pl["l"]
            return ("var", pl["l"], tuple(e for e in pl["p"] if e != "*"), name)
        o = os_[0]
        if o.kind == "const":
            if isinstance(o.data, int) and not isinstance(o.data, bool) and not o.proj:
                return ("c", o.data)
            if isinstance(o.data, (tuple, bytes)) and not o.proj:
                return ("carr", len(o.data))
            return ("c?", str(o.data))
        if o.kind == "param":
            nm = self.fn.local_name(o.data) or "_%d" % o.data
            return ("p", o.data, o.proj, nm + "".join("." + p.split(".")[-1] for p in o.proj if p.startswith("f:")))
        if o.kind == "local":
            nm = self.fn.local_name(o.data) or "_%d" % o.data
            return ("var", o.data, o.proj, nm)
        if o.kind == "bin":
            rv = o.data
            if o.proj and o.proj != ("f:0",):
                return ("?",)
            a, b, opn = self.op(rv["a"], o.block, depth + 1), self.op(rv["b"], o.block, depth + 1), rv["op"].replace("WithOverflow", "")
            if a[0] == "c" and b[0] == "c" and opn in ("Add", "Mul"):
                return ("c", a[1] + b[1] if opn == "Add" else a[1] * b[1])
            return ("bin", opn, a, b)
        if o.kind == "call":
            t = o.data
            if o.proj == ("?ok",) or not o.proj:
                if _is_identity(t) and t["args"]:
                    return self.op(t["args"][0], o.block, depth + 1)
                cn = (t.get("callee") or "?")
                if cn.endswith("::len") and t["args"]:
                    inner = self.op(t["args"][0], o.block, depth + 1)
                    if inner[0] == "carr":
                        return ("c", inner[1])
                    return ("len", inner)
                return ("call", cn, tuple(self.op(a, o.block, depth + 1) for a in t["args"]), o.block)
            return ("call?", t.get("callee"), o.proj, o.block)
        if o.kind == "un":
            return ("un", o.data["op"], self.op(o.data["a"], o.block, depth + 1))
        return ("?",)


def expr_str(c):
    k = c[0]
    if k == "c":
        return str(c[1])
    if k in ("var", "p"):
        return c[3]
    if k == "bin":
        sym = {"Add": "+", "Sub": "-", "Mul": "*", "Div": "/", "Rem": "%", "Shl": "<<", "Shr": ">>"}.get(c[1], c[1])
        return "(%s%s%s)" % (expr_str(c[2]), sym, expr_str(c[3]))
    if k == "len":
        return "len(%s)" % expr_str(c[1])
    if k == "call":
        return "%s(%s)" % (short(c[1]).split("::")[-1], ",".join(expr_str(a) for a in c[2]))
    if k == "un":
        return "%s(%s)" % (c[1], expr_str(c[2]))
    return "?"


def vars_of(c, out=None):
    out = out if out is not None else set()
    if c[0] == "var":
        out.add((c[1], c[2]))
    elif c[0] == "p":
        out.add((c[1], tuple(x for x in c[2])))
    elif c[0] == "bin":
        vars_of(c[2], out)
        vars_of(c[3], out)
    elif c[0] in ("len", "un"):
        vars_of(c[-1], out)
    elif c[0] == "call":
        for a in c[2]:
            vars_of(a, out)
    return out


def same(a, b):
    """Structural equality ignoring call-site blocks of pure calls."""
    if a[0] != b[0]:
        return False
    if a[0] == "call":
        if a[1] == b[1] and a[3] == b[3]:
            return True     # the very same call site
        return a[1] == b[1] and len(a[2]) == len(b[2]) and all(same(x, y) for x, y in zip(a[2], b[2])) and _pure(a[1])
    if a[0] in ("var", "p"):
        return a[1] == b[1] and tuple(a[2]) == tuple(b[2])
    if a[0] == "bin":
        return a[1] == b[1] and same(a[2], b[2]) and same(a[3], b[3])
    if a[0] in ("len", "un"):
        return a[:-1] == b[:-1] and same(a[-1], b[-1])
    return a == b


def _pure(callee):
    return callee.endswith(("::len", "::as_value", "::is_empty", "::decoded_len", "::leading_ones", "::as_slice", "::deref",
                            "::as_bytes", "::encoded_len", "::unwrap", "::try_into", "::into", "::from"))


class LowerBound:
    def __init__(self, prog):
        self.prog = prog
        self._ret = {}

    def lb(self, c, depth=0):
        k = c[0]
        if k == "c":
            return c[1]
        if k == "bin":
            if c[1] == "Add":
                return self.lb(c[2], depth) + self.lb(c[3], depth)
            if c[1] == "Mul":
                return self.lb(c[2], depth) * self.lb(c[3], depth)
            return 0
        if k == "call" and depth < 3:
            return self.ret_lb(c[1], depth + 1)
        return 0

    def ret_lb(self, callee, depth):
        if callee in self._ret:
            return self._ret[callee]
        self._ret[callee] = 0
        fn = self.prog.fns.get(callee)
        if fn is None:
            return 0
        cn = Canon(self.prog, fn)
        vals = []
        for b in fn.return_blocks():
            os_ = cn.tr.place({"l": 0, "p": []}, at=b)
            if not os_:
                return 0
            for o in os_:
                if o.kind == "cast":
                    return 0
                c = cn.from_origins([o], {"k": "cp", "pl": {"l": 0, "p": []}}, b, 0)
                vals.append(self.lb(c, depth))
        r = min(vals) if vals else 0
        self._ret[callee] = r
        return r


def establishes_ge(cond, edge, A, B):
    """Does condition `cond` = (op, X, Y) taken on `edge` (True/False) establish A >= B ?"""
    op, X, Y = cond
    if op == "is_empty":
        # !X.is_empty()  =>  len(X) >= 1
        if edge is False and A[0] == "len" and same(A[1], X) and B[0] == "c" and B[1] <= 1:
            return True
        return False
    if not edge:
        neg = {"Gt": "Le", "Ge": "Lt", "Lt": "Ge", "Le": "Gt", "Eq": "Ne", "Ne": "Eq"}
        if op not in neg:
            return False
        op = neg[op]
    # normalise to X op Y with op in Gt/Ge/Ne
    if op in ("Lt", "Le"):
        X, Y = Y, X
        op = {"Lt": "Gt", "Le": "Ge"}[op]
    if op in ("Gt", "Ge"):
        if same(X, A) and same(Y, B):
            return True
        if same(X, A) and Y[0] == "c" and B[0] == "c":
            k = Y[1] + (1 if op == "Gt" else 0)
            return k >= B[1]
        # X > Y and A == X, B == Y + const?  not needed
    if op == "Ne" and B[0] == "c" and B[1] <= 1:
        if same(X, A) and Y == ("c", 0):
            return True
        if same(Y, A) and X == ("c", 0):
            return True
    return False


CMP_CALLS = {"core::cmp::PartialOrd::gt": "Gt", "core::cmp::PartialOrd::ge": "Ge", "core::cmp::PartialOrd::lt": "Lt",
             "core::cmp::PartialOrd::le": "Le", "core::cmp::PartialEq::eq": "Eq", "core::cmp::PartialEq::ne": "Ne"}


def conditions(prog, fn):
    """[(switch block, true target, false target, (op, X, Y))] for comparisons this analysis understands."""
    cn = Canon(prog, fn)
    out = []
    for sw in bool_switches(prog, fn):
        if len(sw["cond"]) != 1 or sw.get("debug_assert"):
            continue        # a debug_assert! is not a guard: it is absent from release builds
        o = sw["cond"][0]
        c = None
        if o.kind == "bin" and o.data["op"] in ("Gt", "Ge", "Lt", "Le", "Eq", "Ne"):
            c = (o.data["op"], cn.op(o.data["a"], o.block), cn.op(o.data["b"], o.block))
        elif o.kind == "call" and o.data.get("callee") in CMP_CALLS and len(o.data["args"]) == 2:
            c = (CMP_CALLS[o.data["callee"]], cn.op(o.data["args"][0], o.block), cn.op(o.data["args"][1], o.block))
        elif o.kind == "call" and (o.data.get("callee") or "").endswith("::is_empty") and o.data["args"]:
            c = ("is_empty", cn.op(o.data["args"][0], o.block), None)
        if c:
            out.append((sw["block"], sw["true"], sw["false"], c))
    # `match v { 0 => .., n => .. }`: an integer switch with a 0 arm is the comparison v == 0
    for b, blk in enumerate(fn.blocks):
        t = blk["term"]
        if blk["cleanup"] or not t or t["t"] != "switch" or t["dty"] in ("bool", "isize") or t["otherwise"] is None:
            continue
        zero = [bb for v, bb in t["targets"] if v == "0"]
        if len(zero) == 1 and len(t["targets"]) == 1 and not str(t["dty"]).startswith("i"):
            out.append((b, zero[0], t["otherwise"], ("Eq", cn.op(t["discr"], b), ("c", 0))))
    return out


def stable_between(fn, target, use_block, vars_):
    """No definition of the given (local, proj) variables in blocks strictly between the guard edge and the use."""
    fwd = fn.reachable(target)
    mid = {b for b in fwd if b != use_block and use_block in fn.reachable(fn.normal_succs(b))} | ({target} if target != use_block else set())
    defs = fn.defs()
    for (l, proj) in vars_:
        for (b, kind, payload) in defs.get(l, []):
            if b in mid:
                return False
    return True


def guard_for(prog, fn, block, A, B, conds=None):
    conds = conds if conds is not None else conditions(prog, fn)
    vs = vars_of(A) | vars_of(B)
    for (sb, t_true, t_false, c) in conds:
        for edge, tgt, other in ((True, t_true, t_false), (False, t_false, t_true)):
            if tgt == other:
                continue
            if not fn.dominates(tgt, block):
                continue
            # the edge must be the only way into tgt
            if any(p != sb for p in fn.preds()[tgt]):
                continue
            if establishes_ge(c, edge, A, B) and stable_between(fn, tgt, block, vs):
                return (sb, edge, c)
            if edge and stride_guard(prog, fn, c, A, B, block) and stable_between(fn, tgt, block, vs):
                return (sb, edge, c)
    return None


def pre_loop_value(prog, fn, v, at=None):
    """(canon of the value variable v is initialised with, [blocks of `v = v + C` updates], C) if v is only ever
    initialised by one plain copy and otherwise updated by adding one constant stride / subtracting it back."""
    cn = Canon(prog, fn)
    init, adds, stride = None, [], None
    for (b, kind, payload) in fn.defs().get(v, []):
        if at is not None and not cn.tr.reaches(b, at):
            continue      # a later update cannot influence the value at the use
        if kind != "assign" or payload["lhs"]["p"] or payload["rhs"]["rv"] != "use":
            return None
        c = cn.op(payload["rhs"]["a"], b)
        if c[0] == "bin" and c[1] in ("Add", "Sub") and c[2][0] == "var" and c[2][1] == v and c[3][0] == "c":
            if c[1] == "Add":
                if stride not in (None, c[3][1]):
                    return None
                stride = c[3][1]
                adds.append(b)
            continue
        if init is not None:
            return None
        init = c
    if init is None or stride is None:
        return None
    return init, adds, stride


def stride_guard(prog, fn, cond, A, B, at=None):
    """`v > w` where w is the value v started from and v is only ever advanced by += stride:
    then v >= w + stride >= stride, so v - C is safe for C <= stride."""
    op, X, Y = cond
    if Y is None or B[0] != "c" or A[0] != "var":
        return False
    if op == "Lt":
        X, Y, op = Y, X, "Gt"
    if op not in ("Gt", "Ne") or not same(X, A):
        return False
    plv = pre_loop_value(prog, fn, A[1], at)
    if plv is None:
        return False
    init, adds, stride = plv
    return same(Y, init) and B[1] <= stride


def sub_sites(prog, crate="abyssiniandb"):
    """Yield (fn, block, stmt, A, B) for every checked/unchecked unsigned Sub in the crate."""
    for fn in prog.fns.values():
        if fn.crate != crate:
            continue
        cn = None
        for b, blk in enumerate(fn.blocks):
            if blk["cleanup"]:
                continue
            for s in blk["stmts"]:
                if s["s"] == "assign" and s["rhs"]["rv"] == "bin" and s["rhs"]["op"] in SUB_OPS:
                    ty = s["rhs"].get("aty", "")
                    if not ty.startswith("u"):
                        continue
                    cn = cn or Canon(prog, fn)
                    yield fn, b, s, cn.op(s["rhs"]["a"], b), cn.op(s["rhs"]["b"], b)


def lt_facts(prog, fn):
    """[(switch block, target block, X, Y)]: on entering `target` from that switch, X < Y is known.
    `X < Y` true edge, `X >= Y` false edge, `Y > X` true edge, `Y <= X` false edge."""
    out = []
    for (sb, t_true, t_false, (op, X, Y)) in conditions(prog, fn):
        if Y is None or t_true == t_false:
            continue
        if op == "Lt":
            out.append((sb, t_true, X, Y))
        elif op == "Ge":
            out.append((sb, t_false, X, Y))
        elif op == "Gt":
            out.append((sb, t_true, Y, X))
        elif op == "Le":
            out.append((sb, t_false, Y, X))
    return out
