"""C01 - every call history behaves like an ideal in-memory byte-string map (API-to-storage wiring)."""
from .model import short, const_val, Tracer
from .roles import Roles, role_effects, INNER
from .util import (calls_to, origins, where, is_call_to, lookup_split, region_dominated, flag_reach, enum_switches,
                   ret_agg_blocks, in_cycle, chase, const_origin, find_bool_split)

EXPLANATION = (
    "The API-to-storage wiring that model equivalence rests on, decided on MIR: (1) the lookup returns Some only on "
    "paths through the Equal arm of <KT>::cmp_u8 applied to the caller's key and the *stored key bytes read at the "
    "candidate offset with the stored length*; it starts at the bucket head of the caller's hash, advances by the "
    "candidate's stored next link, and returns (current, previous); (2) get/put/delete/includes_key, split on the "
    "lookup result, must-reach exactly their storage roles once each (insert: allocate value, allocate key, write "
    "bucket head, count up; overwrite: rewrite value; delete: free value, free key, count down, unlink) and cannot reach "
    "the roles of the other arms; not-found arms reach no write role and return None/false; len returns the stored "
    "count and is_empty is len == 0; (3) the hash used for lookup and bucket access originates from hash_value() of "
    "the same key parameter.")
NOT_DECIDED = ("everything that depends on run-time values: that offsets read back are the ones written, slot arithmetic, "
               "buffer behaviour, termination; 'no call panics' only in the sense of explicit abort points (reported under C08).")
ASSUMPTIONS = ["trait calls on the generic key type are resolved against all DbMapKeyType impls of the crate"]

OBJSAFE = "abyssiniandb::DbXxxObjectSafe"
BASE = "abyssiniandb::DbXxxBase"
STORAGE_ROLES = ["VAL_ALLOC", "KEY_ALLOC", "HEAD_WRITE", "CNT_UP", "CNT_DOWN", "KEY_FREE", "VAL_FREE", "VAL_REWRITE",
                 "KEY_REWRITE", "OVERWRITE", "LOAD_VALUE", "VAL_READ", "KEY_READ", "KEY_VALOFF", "HEAD_READ", "CNT_READ"]
WRITE_ROLES = {"VAL_ALLOC", "KEY_ALLOC", "HEAD_WRITE", "CNT_UP", "CNT_DOWN", "KEY_FREE", "VAL_FREE", "VAL_REWRITE", "KEY_REWRITE", "OVERWRITE"}


def is_role_origin(prog, R, fn, o, role, proj_prefix=("?ok",)):
    f = R.get(role)
    return f is not None and is_call_to(prog, fn, o, f) and tuple(o.proj[:len(proj_prefix)]) == tuple(proj_prefix)


def hash_from_key(prog, fn, op, key_param):
    """op originates from HashValue::new(<key_param>.hash_value())."""
    os_ = origins(prog, fn, op)
    if not os_:
        return False
    for o in os_:
        if not (o.kind == "call" and (o.data.get("callee") or "").endswith("semtype::HashValue::new")):
            return False
        inner = origins(prog, fn, o.data["args"][0], at=o.block)
        if not inner:
            return False
        for i in inner:
            if not (i.kind == "call" and i.data.get("callee") == "abyssiniandb::HashValue::hash_value"):
                return False
            k = origins(prog, fn, i.data["args"][0], at=i.block)
            if not (k and all(x.kind == "param" and x.data == key_param and not x.proj for x in k)):
                return False
    return True


def _check_own(ctx):
    prog = ctx.prog
    R = Roles(prog)
    unlink_ids = {R.need("HEAD_WRITE").id, R.need("KEY_REWRITE").id}

    def unlink_label(p, f, t):
        # "the chain was re-linked": bucket head or a key record rewritten (a helper may do either, depending on the predecessor)
        return {"UNLINK"} if any(x.id in unlink_ids for x in p.targets(t, f)[0]) else ()
    eff = role_effects(prog, R, STORAGE_ROLES, extra_call=unlink_label)
    lookup = ctx.anchor("LOOKUP", lambda p: R.need("LOOKUP"))
    if lookup is None:
        return
    check_lookup(ctx, prog, R, lookup)
    check_ops(ctx, prog, R, eff, lookup)


def lookup_components(prog, R):
    """(projection of the matched record's offset, projection of its predecessor's offset) in the lookup's Some payload:
    ('f:0', 'f:1') for the (current, previous) tuple, or the field projections of a two-field struct.  The
    predecessor is the component that can be the zero offset (it starts as `T::new(0)`)."""
    cache = prog.__dict__.setdefault("_lookup_components", {})
    if "v" in cache:
        return cache["v"]
    fn = R.need("LOOKUP")
    res = ("f:0", "f:1")
    for b, s_ in ret_agg_blocks(fn, "core::option::Option", "Some"):
        for o in origins(prog, fn, s_["rhs"]["ops"][0], at=b):
            if o.kind != "agg" or len(o.data.get("ops", [])) != 2:
                continue
            if o.data.get("agg") == "tuple":
                names = ["f:0", "f:1"]
            elif o.data.get("agg") == "adt" and len(o.data.get("fields", [])) == 2:
                sn = (o.data.get("adt") or "").rsplit("::", 1)[-1]
                names = ["f:%s.%s" % (sn, f_) for f_ in o.data["fields"]]
            else:
                continue
            zero = lambda x: x.kind == "call" and (x.data.get("callee") or "").endswith("::new") and x.data.get("args") and \
                const_origin(origins(prog, fn, x.data["args"][0], at=x.block)) == 0
            z = [any(zero(x) for x in origins(prog, fn, op_)) for op_ in o.data["ops"]]
            if z == [False, True]:
                res = (names[0], names[1])
            elif z == [True, False]:
                res = (names[1], names[0])
    cache["v"] = res
    return res


def _includes_is_some(ctx, prog, fn, lookup, eff):
    """includes_key written without a branch: `lookup(..)?.is_some()` / `lookup(..).map(|o| o.is_some())`."""
    ok_vals = []
    for b, s in ret_agg_blocks(fn, "core::result::Result", "Ok"):
        for o in origins(prog, fn, s["rhs"]["ops"][0], at=b):
            ok_vals.append(o)
    tr = [o for o in tracer(prog, fn).place({"l": 0, "p": ["?ok"]})] if not ok_vals else ok_vals
    good = bool(tr)
    for o in tr:
        if not (o.kind == "call" and (o.data.get("callee") or "") in ("core::option::Option::<T>::is_some",) and o.data.get("args")):
            good = False
            break
        a = origins(prog, fn, o.data["args"][0], at=o.block)
        if not (a and all(is_call_to(prog, fn, x, lookup) and x.proj[:1] == ("?ok",) and len(x.proj) == 1 for x in a)):
            good = False
    if not good:
        return False
    bad = eff.may[fn.id] & set(WRITE_ROLES)
    ctx.check(not bad, "op-wiring", "includes_key_kt:found:forbidden", "includes_key can reach %s" % sorted(bad), where=where(fn))
    ctx.ok("op-wiring", "includes_key_kt:found:returns", "returns lookup(..).is_some()")
    ctx.ok("op-wiring", "includes_key_kt:not-found:returns", "returns lookup(..).is_some()")
    return True


# --------------------------------------------------------------------------------------------
def check_lookup(ctx, prog, R, fn):
    ctx.touch(fn, len(fn.blocks))
    head_read, next_at, bytes_at = R.need("HEAD_READ"), R.need("NEXT_AT"), R.need("KEY_BYTES_AT")
    cmps = calls_to(prog, fn, callee="abyssiniandb::DbMapKeyType::cmp_u8")
    ctx.floor("lookup-by-full-key", "cmp_u8 sites in the lookup", len(cmps), 1)
    somes = [b for b, s in ret_agg_blocks(fn, "core::option::Option", "Some")]
    ctx.check(bool(somes), "lookup-by-full-key", "some-exists", "the lookup never returns Some", where=where(fn))
    equal_entries = []
    for b, t in cmps:
        a0 = origins(prog, fn, t["args"][0], at=b)
        ctx.check(bool(a0) and all(o.kind == "param" and o.data == 3 for o in a0), "lookup-by-full-key", "cmp-self-is-callers-key",
                  "cmp_u8 is not applied to the caller's key (%s)" % a0, where=where(fn, b))
        a1 = origins(prog, fn, t["args"][1], at=b)
        ctx.check(bool(a1) and all(is_role_origin(prog, R, fn, o, "KEY_BYTES_AT") for o in a1), "lookup-by-full-key", "cmp-arg-is-stored-key",
                  "the bytes compared with the caller's key are not the stored key bytes read at the candidate offset (%s)" % a1,
                  where=where(fn, b), expected="result of %s" % bytes_at.name)
        from .util import variant_entries
        equal_entries += variant_entries(prog, fn, lambda src, b=b: all(o.kind == "call" and o.block == b for o in src), "Equal", discr=0)
    ctx.check(bool(equal_entries), "lookup-by-full-key", "equal-arm", "no match on the Ordering returned by cmp_u8 with an Equal arm", where=where(fn))
    if equal_entries and somes:
        r_all = flag_reach(fn)
        r_no_eq = flag_reach(fn, avoid=equal_entries)
        ctx.check(all(s in r_all for s in somes) and not any(s in r_no_eq for s in somes), "lookup-by-full-key", "some-only-if-equal",
                  "the lookup can return Some(offset) on a path that does not pass the Equal arm of the full-key comparison "
                  "(a hit decided by something weaker than byte equality of the whole key)", where=where(fn, somes[0]))
    # candidate offsets: bucket head of the caller's hash, then stored next links
    def cand_ok(os_):
        return bool(os_) and all(is_role_origin(prog, R, fn, o, "HEAD_READ") or is_role_origin(prog, R, fn, o, "NEXT_AT") for o in os_)
    for b, t in calls_to(prog, fn, target_fn=bytes_at) + calls_to(prog, fn, target_fn=next_at):
        os_ = origins(prog, fn, t["args"][1], at=b)
        ctx.check(cand_ok(os_) and any(is_role_origin(prog, R, fn, o, "HEAD_READ") for o in os_), "lookup-chain", "candidate@%s" % t["callee"].rsplit("::", 1)[-1],
                  "the offset examined by the lookup does not come from the bucket head / the previous record's next link (%s)" % os_, where=where(fn, b))
    hr = calls_to(prog, fn, target_fn=head_read)
    ctx.check(len(hr) == 1, "lookup-chain", "one-head-read", "expected one bucket-head read in the lookup, found %d" % len(hr), where=where(fn))
    for b, t in hr:
        os_ = origins(prog, fn, t["args"][1], at=b)
        ctx.check(bool(os_) and all(o.kind == "param" and o.data == 2 for o in os_), "lookup-chain", "head-of-callers-hash",
                  "the bucket head is not read with the hash the caller passed", where=where(fn, b))
    ctx.check(len(calls_to(prog, fn, target_fn=next_at)) >= 1, "lookup-chain", "advance-exists", "the lookup never follows a next link", where=where(fn))
    # returned pair is (current, previous)
    for b, s in ret_agg_blocks(fn, "core::option::Option", "Some"):
        tup = origins(prog, fn, s["rhs"]["ops"][0], at=b)
        for o in tup:
            if o.kind == "agg" and len(o.data.get("ops", [])) == 2 and (o.data.get("agg") == "tuple" or (o.data.get("agg") == "adt" and len(o.data.get("fields", [])) == 2)):
                cp_, pp_ = lookup_components(prog, R)
                if o.data.get("agg") == "tuple":
                    ci, pi = int(cp_[2:]), int(pp_[2:])
                else:
                    ci, pi = o.data["fields"].index(cp_.rsplit(".", 1)[1]), o.data["fields"].index(pp_.rsplit(".", 1)[1])
                cur = origins(prog, fn, o.data["ops"][ci])
                prv = origins(prog, fn, o.data["ops"][pi])
                zero = lambda x: x.kind == "call" and (x.data.get("callee") or "").endswith("::new") and const_origin(origins(prog, fn, x.data["args"][0], at=x.block)) == 0
                ctx.check(cand_ok(cur), "lookup-result", "current", "first component of the lookup result is not the matched candidate offset (%s)" % cur, where=where(fn, b))
                ctx.check(bool(prv) and any(zero(x) for x in prv) and all(zero(x) or is_role_origin(prog, R, fn, x, "HEAD_READ") or is_role_origin(prog, R, fn, x, "NEXT_AT") for x in prv),
                          "lookup-result", "previous", "second component of the lookup result is not the previously examined offset (zero for the chain head) (%s)" % prv, where=where(fn, b))
                _lockstep(ctx, prog, R, fn, o, ci, pi)
            else:
                ctx.fail("lookup-result", "shape", "the lookup's Some payload is not a (current, previous) tuple", where=where(fn, b))
    # the stored key is read with the stored length at the given offset
    ctx.touch(bytes_at, len(bytes_at.blocks))
    reads = calls_to(prog, bytes_at, callee="rabuf::SmallRead::read_exact_maybeslice")
    ctx.check(len(reads) == 1, "stored-key-read", "one-read", "expected one payload read in %s" % bytes_at.name, where=where(bytes_at))
    for b, t in reads:
        os_ = chase(prog, bytes_at, origins(prog, bytes_at, t["args"][1], at=b))
        ctx.check(bool(os_) and all(is_role_origin(prog, R, bytes_at, o, "R_KEY_LEN") for o in os_), "stored-key-read", "length-is-stored-length",
                  "the number of key bytes compared is not the stored key length (%s): a prefix or over-long compare" % os_, where=where(bytes_at, b))
    from .cursor import skip_to_fns
    _pos = {f.id for f in skip_to_fns(prog)} | {R.need("SEEK_START").id}
    seeks = [(b, t) for b, t in bytes_at.calls() if any(x.id in _pos for x in prog.targets(t, bytes_at)[0])]
    ok = bool(seeks) and all(all(o.kind == "param" and o.data == 2 for o in origins(prog, bytes_at, t["args"][1], at=b)) for b, t in seeks)
    ctx.check(ok and all(bytes_at.dominates(seeks[0][0], b) for b, _ in reads), "stored-key-read", "at-given-offset",
              "the stored key is not read at the offset that was passed in", where=where(bytes_at))
    ctx.sample({"rule": "lookup", "fn": fn.id, "equal_arm_entries": equal_entries, "some_blocks": somes})


def _var_of(fn, op):
    """The (multi-definition) variable a whole-local operand is a copy of."""
    if op.get("k") not in ("cp", "mv") or op["pl"]["p"]:
        return None
    l = op["pl"]["l"]
    for _ in range(10):
        ds = fn.defs().get(l, [])
        if len(ds) == 1 and ds[0][1] == "assign" and not ds[0][2]["lhs"]["p"] and ds[0][2]["rhs"]["rv"] == "use" \
                and ds[0][2]["rhs"]["a"].get("k") in ("cp", "mv") and not ds[0][2]["rhs"]["a"]["pl"]["p"]:
            l = ds[0][2]["rhs"]["a"]["pl"]["l"]
            continue
        break
    return l


def _lockstep(ctx, prog, R, fn, agg, ci, pi):
    """`previous` follows `current` in lock-step: every step of the walk that replaces the current offset by its record's
    next link is preceded, in the same round, by `previous = current` (otherwise a record skipped by a shortcut is not
    the predecessor delete / re-link will rewrite)."""
    cur, prv = _var_of(fn, agg.data["ops"][ci]), _var_of(fn, agg.data["ops"][pi])
    if not ctx.check(cur is not None and prv is not None and cur != prv, "lookup-result", "lockstep:vars",
                     "cannot identify the variables holding the current and the previous offset in the lookup", where=where(fn, agg.block)):
        return
    next_at = R.need("NEXT_AT")
    adv = []
    for b, kind, x in fn.defs().get(cur, []):
        if kind == "call":
            if any(y.id == next_at.id for y in prog.targets(x, fn)[0]):
                adv.append((b, len(fn.blocks[b]["stmts"])))
        elif not x["lhs"]["p"]:
            os_ = origins(prog, fn, x["rhs"].get("a", {}), at=b) if x["rhs"]["rv"] == "use" else []
            if os_ and any(is_role_origin(prog, R, fn, o, "NEXT_AT") for o in os_):
                adv.append((b, fn.blocks[b]["stmts"].index(x)))
    saves = []
    for b, kind, x in fn.defs().get(prv, []):
        if kind == "assign" and not x["lhs"]["p"] and x["rhs"]["rv"] == "use" and _var_of(fn, x["rhs"]["a"]) == cur:
            saves.append((b, fn.blocks[b]["stmts"].index(x)))
    if not ctx.check(bool(adv), "lookup-result", "lockstep:advance", "the lookup never replaces the current offset by a stored next link", where=where(fn)):
        return
    for ab, ai in adv:
        ok = False
        for sb, si in saves:
            same_round = sb == ab or (ab in fn.reachable_ok(fn.normal_succs(sb)) and sb in fn.reachable_ok(fn.normal_succs(ab)))
            before = (sb == ab and si < ai) or (sb != ab and fn.dominates(sb, ab))
            # no other step between the save and this step
            clean = not any(xb != ab and xb != sb and fn.dominates(sb, xb) and fn.dominates(xb, ab) for xb, _ in adv)
            if same_round and before and clean:
                ok = True
        ctx.check(ok, "lookup-result", "lockstep:previous-saved-before-step",
                  "the walk steps to the next record of the chain without first recording the record it leaves as `previous` "
                  "(a later delete / re-link would rewrite the wrong predecessor)", where=where(fn, ab))


# --------------------------------------------------------------------------------------------
def check_ops(ctx, prog, R, eff, lookup):
    ops = {}
    for m in ("get_kt", "put_kt", "del_kt", "includes_key_kt"):
        fs = prog.find(name=m, self_adt=INNER, trait=OBJSAFE)
        if ctx.check(len(fs) == 1, "op-wiring", m + ":anchor", "inner map type has no unique %s" % m):
            ops[m] = fs[0]
    ctx.floor("op-wiring", "entry methods", len(ops), 4)
    n_arms = 0
    for m, fn in ops.items():
        ctx.touch(fn, len(fn.blocks))
        lk = calls_to(prog, fn, target_fn=lookup)
        ctx.check(len(lk) == 1, "op-wiring", m + ":one-lookup", "%s performs %d lookups" % (m, len(lk)), where=where(fn))
        for b, t in lk:
            ctx.check(hash_from_key(prog, fn, t["args"][1], 2), "hash-origin", m + ":lookup",
                      "the hash given to the lookup in %s is not hash_value() of the key parameter" % m, where=where(fn, b))
            k = origins(prog, fn, t["args"][2], at=b)
            ctx.check(bool(k) and all(o.kind == "param" and o.data == 2 for o in k), "hash-origin", m + ":lookup-key",
                      "the key given to the lookup in %s is not the key parameter" % m, where=where(fn, b))
        for role in ("HEAD_READ", "HEAD_WRITE"):
            for b, t in calls_to(prog, fn, target_fn=R.need(role)):
                ctx.check(hash_from_key(prog, fn, t["args"][1], 2), "hash-origin", "%s:%s" % (m, role),
                          "%s in %s uses a hash that is not hash_value() of the key parameter (wrong bucket)" % (role, m), where=where(fn, b))
        sp = lookup_split(prog, fn, lookup)
        if not sp and m == "includes_key_kt" and _includes_is_some(ctx, prog, fn, lookup, eff):
            n_arms += 2
            continue
        if not ctx.check(len(sp) == 1, "op-wiring", m + ":split", "cannot find the unique match on the lookup result in %s (found %d)" % (m, len(sp)), where=where(fn)):
            continue
        _, some, none = sp[0]
        n_arms += 2
        rs, rn = region_dominated(fn, some), region_dominated(fn, none)
        may_s, may_n = eff.region_may(fn, rs), eff.region_may(fn, rn)

        def must(arm, role):
            return eff.must_from(fn, arm, role) is True

        def once(region, role, inst):
            sites = [b for b in eff.sites(fn, role, must=False) if b in region]
            ctx.check(len(sites) == 1 and not in_cycle(fn, sites[0]), "op-wiring", inst,
                      "%s must happen exactly once in this arm of %s, found %d site(s)%s" % (role, m, len(sites), " in a loop" if sites and in_cycle(fn, sites[0]) else ""),
                      where=where(fn, sites[0]) if sites else where(fn))

        def forbid(may, roles, arm):
            bad = may & set(roles)
            ctx.check(not bad, "op-wiring", "%s:%s:forbidden" % (m, arm), "%s arm of %s can reach %s" % (arm, m, sorted(bad)), where=where(fn))

        if m == "get_kt":
            ctx.check(must(some, "LOAD_VALUE") or must(some, "VAL_READ"), "op-wiring", "get_kt:found:reads-value",
                      "get on a present key can return Ok without reading the value record", where=where(fn, some))
            forbid(may_s, WRITE_ROLES, "found")
            forbid(may_n, set(STORAGE_ROLES), "not-found")
            lv = R.get("LOAD_VALUE")
            for b, t in (calls_to(prog, fn, target_fn=lv) if lv else []):
                os_ = origins(prog, fn, t["args"][1], at=b)
                ctx.check(bool(os_) and all(is_call_to(prog, fn, o, lookup) and o.proj[-1:] == (lookup_components(prog, R)[0],) for o in os_), "op-wiring", "get_kt:found:value-of-found-key",
                          "get loads the value of an offset that is not the found key record (%s)" % os_, where=where(fn, b))
            if lv:
                ctx.touch(lv)
                vr = calls_to(prog, lv, target_fn=R.need("VAL_READ"))
                okv = len(vr) == 1 and all(is_role_origin(prog, R, lv, o, "KEY_VALOFF") for o in origins(prog, lv, vr[0][1]["args"][1], at=vr[0][0]))
                ko = calls_to(prog, lv, target_fn=R.need("KEY_VALOFF"))
                okk = len(ko) == 1 and all(o.kind == "param" and o.data == 2 for o in origins(prog, lv, ko[0][1]["args"][1], at=ko[0][0]))
                ctx.check(okv and okk, "op-wiring", "load_value:key->value", "the value loaded for a key record is not read at the value offset stored in that record", where=where(lv))
            _returns_none(ctx, prog, fn, rn, m)
        elif m == "put_kt":
            for role in ("VAL_ALLOC", "KEY_ALLOC", "HEAD_WRITE", "CNT_UP"):
                ctx.check(must(none, role), "op-wiring", "put_kt:insert:must:" + role,
                          "inserting a new key can return Ok without %s" % role, where=where(fn, none))
                once(rn, role, "put_kt:insert:once:" + role)
            forbid(may_n, {"CNT_DOWN", "KEY_FREE", "VAL_FREE"}, "insert")
            ctx.check(must(some, "VAL_REWRITE"), "op-wiring", "put_kt:overwrite:must:VAL_REWRITE",
                      "overwriting an existing key can return Ok without rewriting the value record", where=where(fn, some))
            forbid(may_s, {"CNT_UP", "CNT_DOWN", "KEY_ALLOC", "VAL_ALLOC", "KEY_FREE", "VAL_FREE"}, "overwrite")
        elif m == "del_kt":
            for role in ("VAL_FREE", "KEY_FREE", "CNT_DOWN"):
                ctx.check(must(some, role), "op-wiring", "del_kt:found:must:" + role,
                          "deleting a present key can return Ok without %s" % role, where=where(fn, some))
                once(rs, role, "del_kt:found:once:" + role)
            unl = [b for b in rs if eff.block_must(fn, b, eff.must) & {"HEAD_WRITE", "KEY_REWRITE", "UNLINK"}]
            ctx.check(bool(unl) and not fn.success_reach_return(some, unl), "op-wiring", "del_kt:found:must:unlink",
                      "deleting a present key can return Ok without unlinking it (neither bucket head nor predecessor rewritten)", where=where(fn, some))
            forbid(may_s, {"CNT_UP", "KEY_ALLOC", "VAL_ALLOC"}, "found")
            forbid(may_n, WRITE_ROLES, "not-found")
            _returns_none(ctx, prog, fn, rn, m)
            # returned value was read before the value record was freed
            vfree = [b for b, t in calls_to(prog, fn, target_fn=R.need("VAL_FREE"))]
            for b, s in ret_agg_blocks(fn, "core::option::Option", "Some"):
                os_ = origins(prog, fn, s["rhs"]["ops"][0], at=b)
                ok = bool(os_) and all(is_role_origin(prog, R, fn, o, "VAL_READ") for o in os_)
                ok = ok and all(fn.dominates(o.block, vb) for o in os_ for vb in vfree)
                ctx.check(ok, "op-wiring", "del_kt:found:returns-value-read-before-free",
                          "delete does not return the value it read from the record before freeing it (%s)" % os_, where=where(fn, b))
        elif m == "includes_key_kt":
            forbid(may_s, set(STORAGE_ROLES), "found")
            forbid(may_n, set(STORAGE_ROLES), "not-found")
            for region, want, arm in ((rs, True, "found"), (rn, False, "not-found")):
                vals = []
                for b, s in ret_agg_blocks(fn, "core::result::Result", "Ok"):
                    if b in region:
                        vals.append(const_val(s["rhs"]["ops"][0]))
                ctx.check(vals == [want], "op-wiring", "includes_key_kt:%s:returns" % arm,
                          "includes_key returns %s on the %s arm, expected %s" % (vals, arm, want), where=where(fn))
    ctx.floor("op-wiring", "arms split on the lookup result", n_arms, 8)
    # len / is_empty
    ln = prog.find(name="len", self_adt=INNER, trait=BASE)
    if ctx.check(len(ln) == 1, "len-is-stored-count", "anchor", "inner map has no unique len"):
        f = ln[0]
        ctx.touch(f)
        os_ = Tracer(prog, f).place({"l": 0, "p": []})
        ctx.check(bool(os_) and all(is_call_to(prog, f, o, R.need("CNT_READ")) and not o.proj for o in os_), "len-is-stored-count", "len",
                  "len() does not return the stored item count (%s)" % os_, where=where(f))
    ie = [f for f in prog.fns.values() if f.trait_default_of == BASE and f.name == "is_empty"]
    if ctx.check(len(ie) == 1, "len-is-stored-count", "is_empty:anchor", "DbXxxBase::is_empty default not found"):
        f = ie[0]
        ctx.touch(f)
        calls_len = calls_to(prog, f, callee="abyssiniandb::DbXxxBase::len")
        cl = [f] + prog.closures_of(f)
        cmp_ok = False
        for c in cl:
            for blk in c.blocks:
                for s in blk["stmts"]:
                    if s["s"] == "assign" and s["rhs"]["rv"] == "bin" and s["rhs"]["op"] == "Eq":
                        a, b_ = s["rhs"]["a"], s["rhs"]["b"]
                        if const_val(b_) == 0 or const_val(a) == 0:
                            cmp_ok = True
        ctx.check(len(calls_len) == 1 and cmp_ok, "len-is-stored-count", "is_empty", "is_empty is not `len() == 0`", where=where(f))


def _returns_none(ctx, prog, fn, region, m):
    vals = []
    for b, s in ret_agg_blocks(fn, "core::result::Result", "Ok"):
        if b in region:
            os_ = origins(prog, fn, s["rhs"]["ops"][0], at=b)
            vals.append(all(o.kind == "agg" and o.data.get("variant") == "None" for o in os_) and bool(os_))
    ctx.check(vals == [True], "op-wiring", m + ":not-found:returns-none",
              "%s does not return Ok(None) on the not-found arm" % m, where=where(fn))


def check(ctx):
    _check_own(ctx)
    from .engine import import_rules
    # storage-layer integrity rules that the map semantics depend on (corruption of a record, chain or free list changes what get returns)
    import_rules(ctx, "c05", {"insert-links", "overwrite-links", "delete-links", "bucket-index", "field-position", "count-step", "count-arm", "count-writers", "stored-length-read", "payload-is-callers-bytes"})
    import_rules(ctx, "c06", {"free-slot-field-position", "no-lost-link-update", "large-pop-conservation", "large-pop", "push-pop-inverse", "alloc", "writer-arms", "tables", "class-slot", "large-threshold", "delete-pushes-slot"})
    import_rules(ctx, "c08", {"relink", "abort", "refusal"})
    import_rules(ctx, "c09", {"sizer-covers-writer", "slot-honoured", "vu64-reader-consumes-encoded-length"})
    # two distinct byte-string keys are two entries under every key type: the chain comparison is on the full stored bytes
    # (a key type comparing decoded values conflates keys that differ beyond / below the decoded width)
    import_rules(ctx, "c10", {"byte-identity"})
