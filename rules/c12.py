"""C12 - files written by the released format stay readable (format and hash stability)."""
import json
import os
from .model import short, const_val
from .roles import Roles, M_HTX, M_KEY, M_VAL
from .util import where, origins, calls_to, leaf_origins, tracer
from . import k7, tables, c18, c13, c09, c02

EXPLANATION = (
    "Format fingerprint (K6): a canonical, name-independent description of the on-disk format is extracted from MIR and "
    "evaluated constants and compared with a committed golden transcribed from the pinned release: per file kind the "
    "8-byte magic (writer and checker must agree), the header writer's byte layout with zero runs merged and its total; "
    "hash table: header offsets and access width of bucket count and item count, table base / stride, bitmap base "
    "expression, file-length formula, default table size, capacity->buckets constants; record files: free-list head "
    "offsets, size classes, round-up stride, record field order and codecs, the x8 scaling constants of the offset/size "
    "codecs, the free-slot layout; the five type signatures; the placement hash (chunking, byte order, combine, mixer "
    "shift list, bucket = hash % count).  Plus: the placement hash is seedless (no run- or process-dependent source); "
    "every shift / or / xor / and of the hasher's write and of the mixer operates on u64 (hash-width: a narrower "
    "accumulator has the same statements and constants but drops the high bytes of a short tail).")
NOT_DECIDED = ("that golden images of the pinned release open with identical contents and that all other guarantees keep "
               "holding on them (needs the images and a run); a rewrite that emits the same bytes through a structurally "
               "different writer is reported as 'extraction shape not recognised' (tool limitation, fails closed).")
ASSUMPTIONS = ["the golden fingerprint was generated from the pinned release tree (commit 4b82afd) and cross-read against the layout comments in htx.rs / key.rs / val.rs"]

GOLDEN = os.path.join(os.path.dirname(os.path.abspath(__file__)), "golden", "format_fingerprint.json")
WIDTH_R = {"read_u64_le": 8, "read_u32_le": 4, "read_u16_le": 2, "read_u8": 1}
WIDTH_W = {"write_u64_le": 8, "write_u32_le": 4, "write_u16_le": 2, "write_u8": 1}


def _const(prog, path):
    from .consts import const_id
    mod, name = path.rsplit("::", 1)
    c = prog.consts.get(const_id(prog, mod, name) or path)
    if not c or not isinstance(c.get("v"), dict):
        return None
    v = c["v"]
    if "int" in v:
        return int(v["int"])
    if "ints" in v:
        return [int(x) for x in v["ints"]]
    if "bytes" in v:
        return list(v["bytes"])
    return None


def _seek_and_access(prog, R, fn, widths):
    """(canon seek expression, access width) of a tiny accessor: seek_from_start(X) then read/write of a fixed width."""
    cn = k7.Canon(prog, fn)
    sk = calls_to(prog, fn, target_fn=R.need("SEEK_START"))
    acc = [(b, t) for b, t in fn.calls() if (t.get("callee") or "").rsplit("::", 1)[-1] in widths and "rabuf::Small" in (t.get("callee") or "")]
    if len(sk) != 1 or len(acc) != 1:
        return None
    return [k7.expr_str(_anon(cn.op(sk[0][1]["args"][1], sk[0][0]))), widths[acc[0][1]["callee"].rsplit("::", 1)[-1]]]


def _anon(c):
    """replace variable names by positional placeholders so that renames do not change the fingerprint"""
    if c[0] == "p":
        return ("p", c[1], c[2], "arg%d%s" % (c[1], "".join("." + x.rsplit(".", 1)[-1] for x in c[2] if x.startswith("f:"))))
    if c[0] == "var":
        return ("var", c[1], c[2], "v")
    if c[0] == "bin":
        return ("bin", c[1], _anon(c[2]), _anon(c[3]))
    if c[0] in ("len", "un"):
        return c[:-1] + (_anon(c[-1]),)
    if c[0] == "call":
        return ("call", c[1], tuple(_anon(a) for a in c[2]), 0)
    return c


def scaling(prog, fn):
    """constants of Mul/Div in a codec function"""
    out = []
    from .util import assert_only_blocks
    skip = assert_only_blocks(fn)
    for bi, blk in enumerate(fn.blocks):
        if blk["cleanup"] or bi in skip:
            continue
        for s in blk["stmts"]:
            if s["s"] == "assign" and s["rhs"]["rv"] == "bin" and s["rhs"]["op"].replace("WithOverflow", "") in ("Mul", "Div"):
                for side in ("a", "b"):
                    v = const_val(s["rhs"][side])
                    if v is None and s["rhs"][side].get("k") in ("cp", "mv"):
                        # a named constant, possibly cast: `v * PIECE_ALIGN as u64`
                        from . import k7 as _k7
                        c_ = _k7.Canon(prog, fn).op(s["rhs"][side], bi)
                        v = c_[1] if c_[0] == "c" else None
                    if isinstance(v, int) and not isinstance(v, bool):
                        out.append([s["rhs"]["op"].replace("WithOverflow", ""), v])
    for c in prog.closures_of(fn):
        out += scaling(prog, c)
    return out


def _val_record_reader(prog):
    """VarFileValueCache::read_piece: by name, else the method (&mut self, value offset) -> Result<ValuePiece>."""
    owner = "abyssiniandb::filedb::inner::val::VarFileValueCache"
    c = [x for x in prog.fns.values() if x.impl_self_adt == owner and x.impl_trait is None]
    named = [x for x in c if x.name == "read_piece"]
    if len(named) == 1:
        return named[0]
    got = [x for x in c if len(x.inputs) == 2 and short(x.output).startswith("Result<ValuePiece") and short(x.inputs[1]).startswith("Offset<")]
    if len(got) != 1:
        raise IndexError("value record reader not found")
    return got[0]


def hash_fingerprint(prog):
    fp = {}
    # the mixer: the lib function(s) the hasher's `write` calls (whatever they are named)
    wr0 = [f for f in prog.fns.values() if f.crate == "abyssiniandb" and f.name == "write" and f.impl_trait == "core::hash::Hasher"]
    mixers = []
    if len(wr0) == 1:
        for b, t in wr0[0].calls():
            if not (t.get("callee") or "").startswith("abyssiniandb::"):
                continue        # a std trait call (e.g. the `Iterator::next` of a desugared `fold`) is not the mixer
            for x in prog.targets(t, wr0[0])[0]:
                if x.crate == "abyssiniandb" and x.id not in [m.id for m in mixers]:
                    mixers.append(x)
    mixer_ids = {m.id for m in mixers}
    mix = mixers[0] if len(mixers) == 1 else None
    if mix:
        ops = []
        for b, blk in enumerate(mix.blocks):
            if blk["cleanup"]:
                continue
            for s in blk["stmts"]:
                if s["s"] == "assign" and s["rhs"]["rv"] == "bin" and s["rhs"]["op"] in ("Shl", "Shr", "BitXor", "BitOr", "BitAnd", "Add", "Mul", "AddWithOverflow", "MulWithOverflow"):
                    op = s["rhs"]["op"]
                    if op in ("Shl", "Shr"):
                        ops.append([op, const_val(s["rhs"]["b"])])
                    else:
                        ops.append([op])
        fp["mixer"] = ops
    wr = [f for f in prog.fns.values() if f.crate == "abyssiniandb" and f.name == "write" and f.impl_trait == "core::hash::Hasher"]
    if len(wr) == 1:
        w = wr[0]
        d = {"calls": [], "shifts": []}
        for b, t in w.calls():
            c = t.get("callee") or ""
            nm = c.rsplit("::", 1)[-1]
            is_mixer = any(x.id in mixer_ids for x in prog.targets(t, w)[0])
            if is_mixer or nm in ("chunks", "chunks_exact", "from_be_bytes", "from_le_bytes", "from_ne_bytes", "wrapping_add", "wrapping_mul", "rotate_left", "rotate_right"):
                ent = ["<mixer>" if is_mixer else nm]
                for a in t["args"][1:]:
                    v = const_val(a)
                    if isinstance(v, int):
                        ent.append(v)
                d["calls"].append(ent)
        for blk in w.blocks:
            if blk["cleanup"]:
                continue
            for s in blk["stmts"]:
                if s["s"] == "assign" and s["rhs"]["rv"] == "bin" and s["rhs"]["op"] in ("Shl", "Shr", "BitOr", "BitXor"):
                    d["shifts"].append([s["rhs"]["op"]] + ([const_val(s["rhs"]["b"])] if s["rhs"]["op"] in ("Shl", "Shr") else []))
        # as *sets*: hoisting the state update out of the two arms (one mixer call instead of two) changes nothing
        d["calls"] = sorted([list(x) for x in {tuple(e) for e in d["calls"]}])
        d["shifts"] = sorted([list(x) for x in {tuple(e) for e in d["shifts"]}])
        fp["hasher_write"] = d
    fin = [f for f in prog.fns.values() if f.crate == "abyssiniandb" and f.name == "finish" and f.impl_trait == "core::hash::Hasher"]
    if len(fin) == 1:
        o = tracer(prog, fin[0]).place({"l": 0, "p": []})
        fp["finish_returns_state"] = bool(o) and all(x.kind == "param" and x.proj and x.proj[-1].endswith(".0") for x in o)
    # which Hasher methods the crate's hasher(s) override: an added `write_usize` / `write_u64` / `write_length_prefix`
    # changes the hash of every type whose Hash impl uses that method, although `write` itself is untouched
    fp["hasher_overrides"] = sorted({f.name for f in prog.fns.values() if f.crate == "abyssiniandb" and f.impl_trait == "core::hash::Hasher"})
    hv = prog.fns.get("abyssiniandb::HashValue::hash_value")
    if hv:
        fp["hasher_type"] = sorted({(t.get("gargs") or ["?"])[0] for b, t in hv.calls() if (t.get("callee") or "") == "core::default::Default::default"} |
                                   {t["callee"] for b, t in hv.calls() if "DefaultHasher" in (t.get("callee") or "")})
    return fp


def fingerprint(prog):
    R = Roles(prog)
    fp = {"files": {}}
    for kind, mod, init, chk, hdrc in (("key", M_KEY, "HDR_INIT_KEY", "HDR_CHECK_KEY", "DAT_HEADER_SZ"), ("val", M_VAL, "HDR_INIT_VAL", "HDR_CHECK_VAL", "DAT_HEADER_SZ"),
                                       ("htx", M_HTX, "HDR_INIT_HTX", "HDR_CHECK_HTX", "HTX_HEADER_SZ")):
        f = R.need(init)
        ws = c18.header_writes(prog, f)
        lay = c18.canon_layout(ws)
        magic = None
        wa = calls_to(prog, f, callee="std::io::Write::write_all")
        wa.sort(key=lambda x: len(f.dominators().get(x[0], ())))
        if wa:
            c = [o.data for o in origins(prog, f, wa[0][1]["args"][1], at=wa[0][0]) if o.kind == "const"]
            if c and isinstance(c[0], (bytes, tuple)):
                magic = list(bytes(c[0]))
        fp["files"][kind] = {"magic": magic, "header_size": _const(prog, mod + "::" + hdrc), "header_layout": [[k, n] for k, n in lay],
                             "header_total": sum(n or 0 for k, n in lay)}
    # hash table
    htx = {}
    htx["bucket_count_field"] = _seek_and_access(prog, R, R.need("HT_SIZE_READ"), WIDTH_R)
    htx["item_count_read"] = _seek_and_access(prog, R, R.need("CNT_READ_RAW"), WIDTH_R)
    htx["item_count_write"] = _seek_and_access(prog, R, R.need("CNT_WRITE"), WIDTH_W)
    htx["bucket_load"] = _seek_and_access(prog, R, R.need("BUCKET_LOAD"), WIDTH_R)
    store = R.need("BUCKET_STORE")
    cn = k7.Canon(prog, store)
    htx["bucket_store_seeks"] = sorted({k7.expr_str(_anon(cn.op(t["args"][1], b))) for b, t in calls_to(prog, store, target_fn=R.need("SEEK_START"))})
    htx["bitmap_ops"] = sorted({s["rhs"]["op"] for blk in store.blocks for s in blk["stmts"] if s["s"] == "assign" and s["rhs"]["rv"] == "bin"
                                and s["rhs"]["op"] in ("BitAnd", "BitOr", "Shl", "Div", "Rem")})
    hopen = R.need("HTX_OPEN")
    cn = k7.Canon(prog, hopen)
    sl = calls_to(prog, hopen, target_fn=R.need("SET_LEN"))
    htx["file_length"] = k7.expr_str(_anon(cn.op(sl[0][1]["args"][1], sl[0][0]))).replace("v", "n") if len(sl) == 1 else None
    htx["default_table_size"] = _const(prog, M_HTX + "::DEFAULT_HT_SIZE")
    cap = R.need("CAP2BUCKETS")
    consts = sorted({const_val(x) for blk in cap.blocks for s in blk["stmts"] if s["s"] == "assign" and s["rhs"]["rv"] == "bin" for x in (s["rhs"]["a"], s["rhs"]["b"])
                     if isinstance(const_val(x), int) and not isinstance(const_val(x), bool)})
    htx["capacity_to_buckets"] = {"consts": consts, "calls": sorted({t["callee"].rsplit("::", 1)[-1] for b, t in cap.calls() if (t.get("callee") or "").startswith("core::num")})}
    idx = []
    for role in ("HEAD_READ", "HEAD_WRITE"):
        f = R.need(role)
        idx += [s["rhs"]["op"] for blk in f.blocks for s in blk["stmts"] if s["s"] == "assign" and s["rhs"]["rv"] == "bin" and s["rhs"]["op"] in ("Rem", "BitAnd", "Shr", "Div")]
    htx["bucket_index_ops"] = idx
    fp["htx"] = htx
    # record files
    rec = {}
    rec["size_classes"] = {"key": tables.table(prog, M_KEY, "REC_SIZE_ARY"), "val": tables.table(prog, M_VAL, "REC_SIZE_ARY")}
    rec["free_heads"] = {"key": tables.table(prog, M_KEY, "REC_SIZE_FREE_OFFSET"), "val": tables.table(prog, M_VAL, "REC_SIZE_FREE_OFFSET")}
    ru = R.need("ROUNDUP")
    rec["roundup_consts"] = sorted({v for op, v in scaling(prog, ru)} | {const_val(x) for blk in ru.blocks for s in blk["stmts"] if s["s"] == "assign" and s["rhs"]["rv"] == "bin"
                                                                           and s["rhs"]["op"] in ("Add", "AddWithOverflow") for x in (s["rhs"]["b"],) if isinstance(const_val(x), int)})
    for kind, r_rec in (("key", "KEY_RECORD_WRITE"), ("val", "VAL_RECORD_WRITE")):
        f = R.need(r_rec)
        seq = []
        for b, t in f.calls():
            tg, _ = prog.targets(t, f)
            for r in ("W_PIECE_SIZE", "W_KEY_LEN", "W_VAL_LEN", "W_PIECE_OFFSET", "ZERO_PAD"):
                x = R.get(r)
                if x and any(y.id == x.id for y in tg):
                    codec = c09.codec_of(prog, R, r) if r != "ZERO_PAD" else "zero"
                    if r == "W_PIECE_OFFSET":
                        codec = "%s:%s" % (codec, _kind_of(t["arg_tys"][1]))      # which kind of record the stored offset points at
                    seq.append((b, r, codec))
            if t.get("callee") in c09.RAW_WRITERS:
                seq.append((b, "RAW", "raw"))
        seq.sort(key=lambda x: len(f.dominators().get(x[0], ())))
        rec[kind + "_record"] = [[r, c] for b, r, c in seq]
        # the full-record reader consumes the same fields in the same order
        rd = R.need("KEY_READ_PIECE") if kind == "key" else _val_record_reader(prog)
        rseq = []
        for b, t in rd.calls():
            tg, _ = prog.targets(t, rd)
            for r in ("R_PIECE_SIZE", "R_KEY_LEN", "R_VAL_LEN", "R_PIECE_OFFSET"):
                x = R.get(r)
                if x and any(y.id == x.id for y in tg):
                    nm = "W" + r[1:]
                    if r == "R_PIECE_OFFSET":
                        nm = "%s:%s" % (nm, _kind_of(rd.local_ty(t["dest"]["l"])))
                    rseq.append((b, nm))
            if (t.get("callee") or "") == "rabuf::SmallRead::read_exact_maybeslice":
                rseq.append((b, "RAW"))
        rseq.sort(key=lambda x: len(rd.dominators().get(x[0], ())))
        rec[kind + "_record_reader"] = [r for b, r in rseq]
    for nm, role in (("piece_offset_write", "W_PIECE_OFFSET"), ("piece_offset_read", "R_PIECE_OFFSET"), ("piece_size_write", "W_PIECE_SIZE"), ("piece_size_read", "R_PIECE_SIZE")):
        rec["scale:" + nm] = scaling(prog, R.need(role))
    push = R.need("SLOT_PUSH")
    seq = []
    for b, t in push.calls():
        tg, _ = prog.targets(t, push)
        for r in ("W_PIECE_SIZE", "W_KEY_LEN", "W_FREE_OFFSET", "ZERO_PAD"):
            x = R.get(r)
            if x and any(y.id == x.id for y in tg):
                seq.append((b, r, c09.codec_of(prog, R, r) if r != "ZERO_PAD" else "zero"))
    seq.sort(key=lambda x: len(push.dominators().get(x[0], ())))
    rec["free_slot"] = [[r, c] for b, r, c in seq]
    rec["free_head_access"] = [_seek_w(prog, R, R.need("FREE_HEAD_READ"), WIDTH_R), _seek_w(prog, R, R.need("FREE_HEAD_WRITE"), WIDTH_W)]
    fp["records"] = rec
    # signatures
    sigs = {}
    for i in prog.trait_impls["abyssiniandb::DbMapKeyType"].get("signature", []):
        f = prog.fns.get(i)
        if f:
            v = c13.signature_of(prog, f)
            sigs[short(f.impl_self or "?")] = list(v) if v else None
    fp["signatures"] = sigs
    fp["hash"] = hash_fingerprint(prog)
    return fp


def _kind_of(ty):
    if "Piece<abyssiniandb::filedb::inner::semtype::Value>" in ty:
        return "Value"
    if "Piece<abyssiniandb::filedb::inner::semtype::Key>" in ty:
        return "Key"
    return "?"


def _seek_w(prog, R, fn, widths):
    acc = [(b, t) for b, t in fn.calls() if (t.get("callee") or "").rsplit("::", 1)[-1] in widths and "rabuf::Small" in (t.get("callee") or "")]
    return widths[acc[0][1]["callee"].rsplit("::", 1)[-1]] if len(acc) == 1 else None


def diff(a, b, path=""):
    out = []
    if isinstance(a, dict) and isinstance(b, dict):
        for k in sorted(set(a) | set(b)):
            if k not in a:
                out.append((path + "/" + k, None, b[k]))
            elif k not in b:
                out.append((path + "/" + k, a[k], None))
            else:
                out += diff(a[k], b[k], path + "/" + k)
    elif a != b:
        out.append((path, a, b))
    return out


def check_hash_width(ctx, prog):
    """The released placement hash folds bytes into a 64-bit accumulator: every shift / or / xor / and in the hasher's
    `write` (after normalisation: closures of a `fold` spliced, new helpers inlined) and in the mixer operates on u64.
    A narrower accumulator (`fold(0, |a, b| (a << 8) | u32::from(*b))`, `as u32` on the way) has the same statement
    shape and the same constants but loses the high bytes of 5..7-byte tails: keys are re-placed."""
    wr = [f for f in prog.fns.values() if f.crate == "abyssiniandb" and f.name == "write" and f.impl_trait == "core::hash::Hasher"]
    if not ctx.check(len(wr) == 1, "hash-width", "anchor", "expected exactly one Hasher::write in the crate, found %d" % len(wr)):
        return
    w = wr[0]
    fns = [w] + list(prog.closures_of(w))
    for b, t in w.calls():
        if (t.get("callee") or "").startswith("abyssiniandb::"):
            for x in prog.targets(t, w)[0]:
                if x.crate == "abyssiniandb" and x.id not in [f.id for f in fns]:
                    fns.append(x)
    n = 0
    for f in fns:
        ctx.touch(f, len(f.blocks))
        for bi, blk in enumerate(f.blocks):
            if blk["cleanup"]:
                continue
            for s in blk["stmts"]:
                if s["s"] == "assign" and s["rhs"]["rv"] == "bin" and s["rhs"]["op"] in ("Shl", "Shr", "BitOr", "BitXor", "BitAnd"):
                    n += 1
                    aty = s["rhs"].get("aty")
                    ctx.check(aty == "u64", "hash-width", "%s:%s" % (f.name, s["rhs"]["op"]),
                              "the placement hash computes `%s` on %s in %s: the released hash folds into a 64-bit accumulator, a narrower one drops "
                              "the high bytes of the fold and re-places keys" % (s["rhs"]["op"], aty, f.name), where=where(f, bi))
    ctx.floor("hash-width", "bit operations of the placement hash checked for 64-bit width", n, 5)


def _check_own(ctx):
    prog = ctx.prog
    try:
        fp = fingerprint(prog)
    except Exception as e:
        ctx.fail("fingerprint", "extraction", "extraction shape not recognised (%s: %s): the format writer was restructured; the fingerprint cannot be computed" % (type(e).__name__, e))
        return
    fp = json.loads(json.dumps(fp))
    golden = {}
    if os.path.exists(GOLDEN):
        golden = json.load(open(GOLDEN))
    g = golden.get(ctx.config)
    if os.environ.get("ABSY_WRITE_GOLDEN") == "1":
        golden[ctx.config] = fp
        json.dump(golden, open(GOLDEN, "w"), indent=1, sort_keys=True)
        g = fp
    if not ctx.check(g is not None, "fingerprint", "golden-present", "no golden fingerprint for configuration %s" % ctx.config):
        return
    d = diff(g, fp)
    leaves = _count_leaves(g)
    ctx.floor("fingerprint", "fingerprint entries compared", leaves, 60)
    if not d:
        for k in sorted(fp):
            ctx.ok("fingerprint", k, "equal to the pinned release")
    seen = set()
    for path, old, new in d:
        top = path.split("/")[1] if "/" in path else path
        seen.add(top)
        ctx.fail("fingerprint", path.strip("/"), "on-disk format / placement changed at %s: released %r, now %r (released files become unreadable or keys are re-placed)" % (path, old, new))
    # internal agreement: writer magic == checker magic is C13's rule; header totals == header sizes
    for kind, f in fp["files"].items():
        ctx.check(f["header_total"] == f["header_size"] and f["magic"] is not None and len(f["magic"]) == 8, "fingerprint-consistency", kind + ":header",
                  "%s header writer covers %s bytes, header size constant is %s" % (kind, f["header_total"], f["header_size"]))
    for nm in ("piece_offset", "piece_size"):
        w, r = fp["records"]["scale:%s_write" % nm], fp["records"]["scale:%s_read" % nm]
        if w or r:
            ctx.check(len(w) == 1 and len(r) == 1 and w[0][0] == "Div" and r[0][0] == "Mul" and w[0][1] == r[0][1], "fingerprint-consistency", nm + ":scale-inverse",
                      "%s is written as value/%s and read as value*%s" % (nm, w, r))
    # reader/writer agreement: the full-record readers consume what the writers emit, in order
    for kind in ("key", "val"):
        w = [r if not c or ":" not in str(c) or r != "W_PIECE_OFFSET" else "%s:%s" % (r, str(c).split(":")[1]) for r, c in fp["records"][kind + "_record"] if r != "ZERO_PAD"]
        r = fp["records"].get(kind + "_record_reader")
        ctx.check(w == r, "reader-writer-agreement", kind, "the %s record reader consumes %s but the writer emits %s" % (kind, r, w))
    ctx.sample({"fingerprint_excerpt": {"files": fp["files"], "hash": fp["hash"], "signatures": fp["signatures"]}})
    check_hash_width(ctx, prog)
    c02.check_seedless(ctx, prog, rule="placement-seedless")
    from . import poscontrol
    poscontrol.nondet_control(ctx)


def _count_leaves(x):
    if isinstance(x, dict):
        return sum(_count_leaves(v) for v in x.values())
    if isinstance(x, list):
        return max(1, sum(_count_leaves(v) for v in x)) if x and isinstance(x[0], (list, dict)) else 1
    return 1


def check(ctx):
    _check_own(ctx)
    from .engine import import_rules
    # placement = hash % *stored* table size
    import_rules(ctx, "c07", {"stored-count-wins"})
    import_rules(ctx, "c05", {"bucket-index"})
    import_rules(ctx, "c06", {"class-slot"})
    import_rules(ctx, "c09", {"vu64-reader-consumes-encoded-length"})
    # the key types' Hash impls (derived over the raw bytes) are the on-disk bucket function
    import_rules(ctx, "c10", {"byte-identity"})
