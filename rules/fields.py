"""Field roles: struct fields the rules talk about, resolved by owner + preferred name with a *type / ordinal* fallback
(the n-th field of the owner whose type matches), so that renaming a field does not raise alarms."""
from .model import short, AnchorError
from .roles import A, INNER, ITERMUT, PIECEMGR

KEYPIECE = A + "key::KeyPiece"
VALPIECE = A + "val::ValuePiece"
HTXCACHE = A + "htx::VarFileHtxCache"
WALK = A + "piece::PieceOffsetIter"
PARAMS = "abyssiniandb::filedb::FileDbParams"

# role -> (owner ADT, preferred name, substring of the short type, ordinal among fields of that type)
FIELDS = {
    "INNER.dirty": (INNER, "dirty", "bool", 0),
    "INNER.key_file": (INNER, "key_file", "KeyFile<", 0),
    "INNER.val_file": (INNER, "val_file", "ValueFile", 0),
    "INNER.htx_file": (INNER, "htx_file", "HtxFile", 0),
    "ITER.counter": (ITERMUT, "remaining_item_count", "u64", 0),
    "ITER.table_size": (ITERMUT, "buckets_size", "u64", 1),
    "ITER.index": (ITERMUT, "buckets_idx", "u64", 2),
    "ITER.key_offset": (ITERMUT, "key_offset", "Offset<Piece<Key>>", 0),
    "MGR.heads": (PIECEMGR, "free_list_offset", "[u64]", 0),
    "MGR.sizes": (PIECEMGR, "size_ary", "[u32]", 0),
    "WALK.start": (WALK, "piece_offset_start", "Offset<Piece<T>>", 0),
    "WALK.end": (WALK, "piece_offset_end", "Offset<Piece<T>>", 1),
    "WALK.cur": (WALK, "piece_offset", "Offset<Piece<T>>", 2),
    "KEYPIECE.offset": (KEYPIECE, "offset", "Offset<Piece<Key>>", 0),
    "KEYPIECE.size": (KEYPIECE, "size", "Size<Piece<Key>>", 0),
    "KEYPIECE.value_offset": (KEYPIECE, "value_offset", "Offset<Piece<Value>>", 0),
    "KEYPIECE.next": (KEYPIECE, "bucket_next_offset", "Offset<Piece<Key>>", 1),
    "VALPIECE.offset": (VALPIECE, "offset", "Offset<Piece<Value>>", 0),
    "VALPIECE.size": (VALPIECE, "size", "Size<Piece<Value>>", 0),
    "VALPIECE.value": (VALPIECE, "value", "Vec<u8>", 0),
    "HTXCACHE.buckets_size": (HTXCACHE, "buckets_size", "u64", 0),
    "PARAMS.buckets_size": (PARAMS, "buckets_size", "HashBucketsParam", 0),
}


def fname(prog, role):
    """Current name of the field playing `role`."""
    cache = getattr(prog, "_field_cache", None)
    if cache is None:
        cache = prog._field_cache = {}
    if role in cache:
        return cache[role]
    owner, pref, typ, ordinal = FIELDS[role]
    adt = prog.adts.get(owner)
    if not adt:
        raise AnchorError("field role %s: struct %s not found" % (role, short(owner)))
    fields = adt["variants"][0]["fields"]
    names = [f["name"] for f in fields]
    if pref in names:
        got = pref
    else:
        cand = [f["name"] for f in fields if typ in short(f["ty"])]
        # names already claimed (by preferred name) by sibling roles of the same owner and type are not candidates
        taken = {p for r, (o, p, t, n) in FIELDS.items() if o == owner and r != role and p in names}
        free = [c for c in cand if c not in taken]
        same = sorted([(n, r) for r, (o, p, t, n) in FIELDS.items() if o == owner and t == typ and p not in names])
        idx = [r for n, r in same].index(role) if role in [r for n, r in same] else 0
        if idx >= len(free):
            raise AnchorError("field role %s: no field of %s with type %s (renamed and retyped?)" % (role, short(owner), typ))
        got = free[idx]
    cache[role] = got
    return got


def fq(prog, role):
    """`<Struct>.<field>` suffix as it appears in projections (e.g. 'KeyPiece.bucket_next_offset')."""
    owner = FIELDS[role][0]
    return owner.rsplit("::", 1)[-1] + "." + fname(prog, role)


def dot(prog, role):
    return "." + fname(prog, role)


def pf(prog, piece, what):
    """'<Piece struct>.<field>' for piece in ('KeyPiece', 'ValuePiece') and what in offset|size|value_offset|next|value."""
    return fq(prog, ("KEYPIECE." if piece == "KeyPiece" else "VALPIECE.") + what)
