"""C18 - the on-disk image is a deterministic function of the update history."""
from .model import short, const_val
from .roles import Roles, role_effects, io_effects, WRITE_ATOMS, INNER
from .util import where, origins, calls_to, leaf_origins, reachable_fns, tracer
from . import k5, k7
from .c15 import read_only_roots

EXPLANATION = (
    "(1) No nondeterminism source in abyssiniandb, rabuf or vu64 bodies reachable from the lib's API: random state / "
    "DefaultHasher (default configuration), clocks, process id, environment, thread id, pointer-to-integer casts outside "
    "derive/format expansions; iteration over a HashMap/HashSet is inventoried and each instance must be followed by a "
    "sort before any write (rabuf's flush). (2) No uninitialised bytes can reach a file: no MaybeUninit / Vec::set_len / "
    "mem::zeroed / transmute / raw allocation in the lib (the dependency's raw-slice views are inventoried, frozen). "
    "(3) Every record, free-slot header and file header is written to its full extent: both record writers, the "
    "free-slot push and the slot clear end with a zero pad up to offset + size, the three header initialisers write "
    "exactly the header size, and the hash-table creation sets the file length and writes the final 8 bytes. "
    "(4) Read-only calls do not write (same purity query as C15), so splicing them in cannot change the image. "
    "(5) The stored item count is stepped from the value read from the file at that moment and written by the two "
    "count steppers only (C05's count-step / count-writers): a copy left in memory by an earlier read-only call cannot "
    "reach the header.")
NOT_DECIDED = ("byte equality of two runs: allocation order is a function of the history only if the above hold and rabuf's "
               "buffer management is deterministic, which is assumed beyond clause 1.")
ASSUMPTIONS = ["file contents are only produced by the analysed crates' write primitives"]

# HashMap iteration sites allowed (function id suffix, method): reason
HASH_ITER_ALLOW = {("flush", "keys"): "rabuf flush collects chunk offsets and sort_unstable()s them before writing"}
# raw-slice views in rabuf (from_raw_parts over an initialised Vec<u8>): count frozen per function is not needed; presence is inventoried
HDR = [("key", "HDR_INIT_KEY", "abyssiniandb::filedb::inner::key::DAT_HEADER_SZ"), ("val", "HDR_INIT_VAL", "abyssiniandb::filedb::inner::val::DAT_HEADER_SZ"),
       ("htx", "HDR_INIT_HTX", "abyssiniandb::filedb::inner::htx::HTX_HEADER_SZ")]
WIDTH = {"write_u64_le": 8, "write_u32_le": 4, "write_u16_le": 2, "write_u8": 1}


def header_writes(prog, fn):
    """[(kind, nbytes)] of the writes of a header initialiser in dominance order; kind in magic|sig|zero|value."""
    out = []
    for b, t in fn.calls():
        c = t.get("callee") or ""
        nm = c.rsplit("::", 1)[-1]
        if c == "std::io::Write::write_all":
            os_ = leaf_origins(prog, fn, t["args"][1], at=b)
            n, kind = None, "bytes"
            for o in os_:
                if o.kind == "const" and isinstance(o.data, (bytes, tuple)):
                    n, kind = len(o.data), ("magic" if any(o.data) else "zero")
                elif o.kind == "repeat":
                    n, kind = o.data.get("n"), ("zero" if const_val(o.data["a"]) == 0 else "fill")
                elif o.kind == "param":
                    ty = fn.local_ty(o.data)
                    if ty.startswith(("&[u8; ", "&mut [u8; ")) and not [p_ for p_ in o.proj if p_ != "deref"]:
                        ty = ty[ty.index("["):]          # the signature passed by reference
                    if ty.startswith("[u8; "):
                        n, kind = int(ty[5:-1]), "sig"
                elif o.kind == "agg" and o.data.get("agg") == "array":
                    n = len(o.data["ops"])
                    kind = "zero" if all(const_val(x) == 0 for x in o.data["ops"]) else "bytes"
            out.append((b, kind, n))
        elif c.startswith("rabuf::SmallWrite::") and nm in WIDTH:
            v = const_val(t["args"][1])
            if v is None:
                from .util import const_origin, origins as _or
                v = const_origin(_or(prog, fn, t["args"][1], at=b))      # `let reserve0: u64 = 0; write_u64_le(reserve0)`
            out.append((b, "zero" if v == 0 else "value", WIDTH[nm]))
    out.sort(key=lambda x: len(fn.dominators().get(x[0], ())))
    return out


def canon_layout(ws):
    """merge adjacent zero runs"""
    out = []
    for b, kind, n in ws:
        if out and kind == "zero" and out[-1][0] == "zero" and n is not None and out[-1][1] is not None:
            out[-1] = ("zero", out[-1][1] + n)
        else:
            out.append((kind, n))
    return out


def _check_own(ctx):
    prog = ctx.prog
    R = Roles(prog)
    io = io_effects(prog)
    # ---- (1)
    api_roots = [f for f in prog.fns.values() if f.crate == "abyssiniandb" and f.kind != "Closure"]
    closure = reachable_fns(prog, api_roots, crates=("abyssiniandb", "rabuf", "vu64"))
    ctx.floor("no-nondeterminism", "functions in the API closure", len(closure), 500)
    bad = []
    for fn in closure.values():
        for b, t in fn.calls():
            c = t.get("callee") or ""
            for nm, rx in k5.NONDET:
                if rx.search(c):
                    if nm == "address" and (fn.from_expansion or t.get("from_expansion")):
                        continue
                    bad.append((nm, fn, b, c))
    for nm in sorted({x[0] for x in k5.NONDET}):
        hits = [x for x in bad if x[0] == nm]
        ctx.check(not hits, "no-nondeterminism", nm, "a %s source is reachable from the API: %s" % (nm, sorted({c for _, f, b, c in hits})),
                  where="; ".join(where(f, b) for _, f, b, c in hits[:3]))
    pc = k5.ptr_casts(prog, crates=("abyssiniandb", "rabuf", "vu64"))
    from . import poscontrol
    poscontrol.nondet_control(ctx)
    poscontrol.regex_control(ctx, "uninit", k5.UNINIT, "uninit_set_len")
    ctx.check(not pc, "no-nondeterminism", "pointer-to-int-casts", "pointer-to-integer cast outside expansions", where="; ".join(where(f, b) for f, b, s in pc[:3]))
    hi = k5.matches(prog, k5.HASH_ITER, crates=("abyssiniandb", "rabuf", "vu64"))
    for fn, b, t in hi:
        key = (fn.name, t["callee"].rsplit("::", 1)[-1])
        ok = key in HASH_ITER_ALLOW
        if ok:
            sorts = [bb for bb, tt in fn.calls() if (tt.get("callee") or "").rsplit("::", 1)[-1] in ("sort_unstable", "sort")]
            writes = [bb for bb, tt in fn.calls() if any(x.name == "write" and x.impl_self_adt == "rabuf::Chunk" for x in prog.targets(tt, fn)[0])]
            ok = bool(sorts) and all(fn.dominates(b, s) for s in sorts) and bool(writes) and all(any(fn.dominates(s, w) for s in sorts) for w in writes)
        ctx.check(ok, "no-nondeterminism", "hash-iteration:%s::%s" % (fn.name, key[1]),
                  "iteration over a hash container in %s is not followed by a sort before the data is written (order would depend on the hasher's seed)" % fn.id, where=where(fn, b))
    ctx.sample({"rule": "no-nondeterminism", "closure_functions": len(closure), "hash_iteration_sites": [short(f.id) for f, b, t in hi]})
    # ---- (2)
    un = k5.matches(prog, k5.UNINIT, crates=("abyssiniandb",))
    ctx.check(not un, "no-uninit", "lib", "the lib uses %s" % sorted({t["callee"] for f, b, t in un}), where="; ".join(where(f, b) for f, b, t in un[:3]))
    un_dep = k5.matches(prog, k5.UNINIT, crates=("rabuf", "vu64"))
    kinds = sorted({t["callee"].rsplit("::", 1)[-1] for f, b, t in un_dep})
    ctx.check(set(kinds) <= {"from_raw_parts", "from_raw_parts_mut"}, "no-uninit", "dependencies",
              "the buffered-file dependency now uses %s (only raw views over initialised Vec<u8> data were confirmed)" % kinds)
    # Vec::with_capacity in rabuf must not be combined with set_len (covered by the regex above); chunk data comes from vec![0; n]
    # ---- (3) full extent
    for role in ("KEY_RECORD_WRITE", "VAL_RECORD_WRITE", "SLOT_PUSH", "SLOT_CLEAR"):
        fn = R.need(role)
        ctx.touch(fn)
        zp = calls_to(prog, fn, target_fn=R.need("ZERO_PAD"))
        wr = [b for b, t in fn.calls() if (io.region_may(fn, [b]) & {"BUF_DIRTY"}) and b not in [z[0] for z in zp]]
        hw = [b for b, t in calls_to(prog, fn, target_fn=R.need("FREE_HEAD_WRITE"))]
        wr = [b for b in wr if b not in hw]          # the list-head update in the header follows the slot write
        ok = len(zp) == 1 and all(fn.dominates(b, zp[0][0]) for b in wr)
        if ok and role != "SLOT_PUSH":
            ok = not fn.success_reach_return(0, [zp[0][0]])
        if ok and role == "SLOT_PUSH":
            ok = fn.success_reach_return(0, [zp[0][0]]) is False or all(not fn.success_reach_return(fn.normal_succs(w), [zp[0][0]]) for w in wr[:1])
        if ok:
            cn = k7.Canon(prog, fn)
            c = cn.op(zp[0][1]["args"][1], zp[0][0])
            ok = c[0] == "call" and c[1].endswith("Add::add")
        ctx.check(ok, "full-extent", role, "%s does not finish by zero-filling to the end of the slot (offset + size): bytes of a previous occupant stay in the file" % role, where=where(fn))
    for kind, role, cname in HDR:
        fn = R.need(role)
        ctx.touch(fn)
        ws = header_writes(prog, fn)
        total = sum(n for b, k, n in ws if n is not None)
        from .consts import const_id
        c = prog.consts.get(const_id(prog, *cname.rsplit("::", 1)) or cname)
        hdr = int(c["v"]["int"]) if c and "int" in (c.get("v") or {}) else None
        ctx.check(hdr is not None and all(n is not None for b, k, n in ws) and total == hdr, "full-extent", "header:" + kind,
                  "the %s header initialiser writes %s bytes (%s), the header size is %s" % (kind, total, canon_layout(ws), hdr), where=where(fn))
        sk = calls_to(prog, fn, target_fn=R.need("SEEK_START"))
        ok = len(sk) == 1 and all(fn.dominates(sk[0][0], b) for b, k, n in ws)
        if ok:
            o = leaf_origins(prog, fn, sk[0][1]["args"][1], at=sk[0][0], terminal_only=True)
            ok = bool(o) and all(x.kind == "const" and x.data == 0 for x in o)
        ctx.check(ok, "full-extent", "header-at-zero:" + kind, "the %s header is not written from offset 0" % kind, where=where(fn))
    hopen = R.need("HTX_OPEN")
    sl = calls_to(prog, hopen, target_fn=R.need("SET_LEN"))
    w = [(b, t) for b, t in hopen.calls() if (t.get("callee") or "") == "rabuf::SmallWrite::write_u64_le"]
    ok = len(sl) == 1 and len(w) == 1 and hopen.dominates(sl[0][0], w[0][0]) and const_val(w[0][1]["args"][1]) == 0
    if ok:
        cn = k7.Canon(prog, hopen)
        L = cn.op(sl[0][1]["args"][1], sl[0][0])
        sk = [(b, t) for b, t in calls_to(prog, hopen, target_fn=R.need("SEEK_START")) if hopen.dominates(sl[0][0], b) and hopen.dominates(b, w[0][0])]
        ok = len(sk) == 1
        if ok:
            S = cn.op(sk[0][1]["args"][1], sk[0][0])
            ok = S[0] == "bin" and S[1] == "Sub" and S[3] == ("c", 8) and k7.same(S[2], L)
    ctx.check(ok, "full-extent", "htx-table-tail", "a new hash-table file is not sized and then zero-terminated at (length - 8)", where=where(hopen))
    # ---- (4)
    roots = read_only_roots(prog)
    badr = [(g, f) for g, f in roots if io.may[f.id] & WRITE_ATOMS]
    ctx.check(len(roots) >= 50 and not badr, "reads-do-not-write", "api", "read-only calls with write effects: %s" % [short(f.id) for g, f in badr][:5])


def check(ctx):
    _check_own(ctx)
    from .engine import import_rules
    import_rules(ctx, "c04", {"scan-compensation"})
    import_rules(ctx, "c01", {"lookup-by-full-key", "lookup-result"})
    # the image is a function of the update history only: read-only calls neither write nor change what a later flush does
    import_rules(ctx, "c15", {"read-only-no-dirty-store"})
    # a freed slot is always filed on its list (never given back by shortening the file): what later calls read at that
    # offset stays inside the file
    import_rules(ctx, "c06", {"push-pop-inverse"})
    # the stored item count is part of the image: it is stepped from the value read from the file at that moment, never
    # from a copy an earlier (possibly read-only) call left in memory
    import_rules(ctx, "c05", {"count-step", "count-writers"})
