"""Payload-integrity rules shared by C01/C05/C09: the bytes stored are the caller's bytes, the stored length is the
length of what is written, and every reader takes exactly `stored length` bytes."""
from .model import short
from .roles import M_KEY, M_VAL, M_DBXXX
from .util import calls_to, origins, leaf_origins, where, is_call_to, chase, field_stores
from .fields import pf, fname as _fn
from . import k7

RAW_READ = "rabuf::SmallRead::read_exact_maybeslice"


def check_stored_length_reads(ctx, prog, R, rule="stored-length-read"):
    """Every payload read in the key / value modules takes exactly the number of bytes given by the length field read
    just before it in the same function (no prefix, no over-read)."""
    n = 0
    for fn in sorted(prog.fns.values(), key=lambda f: f.id):
        if fn.crate != "abyssiniandb" or fn.module not in (M_KEY, M_VAL) or fn.kind == "Closure":
            continue
        for b, t in calls_to(prog, fn, callee=RAW_READ):
            n += 1
            ctx.touch(fn)
            cn = k7.Canon(prog, fn)
            e = _strip_conv(cn.op(t["args"][1], b))
            ok = e[0] == "call?" and e[2] == ("?ok",) and (is_role(prog, R, fn, e, "R_KEY_LEN") or is_role(prog, R, fn, e, "R_VAL_LEN"))
            if not ok:
                os_ = chase(prog, fn, origins(prog, fn, t["args"][1], at=b))
                ok = bool(os_) and all((is_call_to(prog, fn, o, R.need("R_KEY_LEN")) or is_call_to(prog, fn, o, R.need("R_VAL_LEN"))) and o.proj == ("?ok",) for o in os_)
            ctx.check(ok, rule, "%s::%s" % (short(fn.impl_self_adt or "?"), fn.name),
                      "%s reads a payload whose byte count (%s) is not exactly the stored length field read before it: the key / value comes back "
                      "truncated or with bytes of the next field" % (fn.name, k7.expr_str(e)), where=where(fn, b))
    ctx.floor(rule, "payload reads", n, 5)
    # ... and with a primitive that delivers exactly that many bytes: `Read::read` / `Write::write` may stop short (rabuf
    # stops at the end of the current buffer chunk), so outside the two forwarding impls on VarFile nothing in the lib
    # may call them
    PARTIAL = ("std::io::Read::read", "std::io::Write::write", "std::io::Read::read_buf", "std::io::Read::read_vectored", "std::io::Write::write_vectored")
    bad = []
    n_fwd = 0
    for fn in sorted(prog.fns.values(), key=lambda f: f.id):
        if fn.crate != "abyssiniandb":
            continue
        for b, t in fn.calls():
            if (t.get("callee") or "") in PARTIAL and not fn.is_cleanup(b):
                if fn.impl_trait in ("std::io::Read", "std::io::Write") and fn.name == (t.get("callee") or "").rsplit("::", 1)[-1]:
                    n_fwd += 1          # `impl Read for VarFile { fn read(..) { self.buf_file.read(..) } }`
                else:
                    bad.append((fn, b, t))
    ctx.check(not bad, rule, "exact-length-primitives",
              "%s transfers data with %s, which may stop short of the requested length (a record that straddles a buffer chunk comes back truncated)"
              % (bad[0][0].name if bad else "-", (bad[0][2].get("callee") or "").rsplit("::", 2)[-2:] if bad else "-"), where=where(bad[0][0], bad[0][1]) if bad else None)


def is_role(prog, R, fn, e, role):
    f = R.get(role)
    return f is not None and e[1] == f.id


def _strip_conv(c):
    while c[0] == "call" and len(c[2]) == 1 and c[1].rsplit("::", 1)[-1] in ("into", "from", "try_into", "unwrap", "as_value", "new"):
        c = c[2][0]
    return c


def check_payload_sources(ctx, prog, R, rule="payload-is-callers-bytes"):
    """The value / key bytes placed into a record are the bytes handed in (constructor chain) and the overwrite helper
    replaces the record's payload with the value parameter."""
    wv = [f for f in prog.fns.values() if f.crate == "abyssiniandb" and f.impl_self_adt == "abyssiniandb::filedb::inner::val::ValuePiece" and f.name == "with_value"]
    if not wv:
        wv = [f for f in prog.fns.values() if f.crate == "abyssiniandb" and f.impl_self_adt == "abyssiniandb::filedb::inner::val::ValuePiece"
              and len(f.inputs) == 1 and short(f.inputs[0]) == "&[u8]" and short(f.output) == "ValuePiece"]
    if ctx.check(len(wv) == 1, rule, "value-ctor:anchor", "the value-record constructor from bytes was not found"):
        f = wv[0]
        ctx.touch(f)
        ok = False
        for b, blk in enumerate(f.blocks):
            for s in blk["stmts"]:
                if s["s"] == "assign" and s["rhs"]["rv"] == "agg" and s["rhs"].get("adt", "").endswith("val::ValuePiece"):
                    flds = s["rhs"]["fields"]
                    o = _through_copies(prog, f, leaf_origins(prog, f, s["rhs"]["ops"][flds.index(_fn(prog, "VALPIECE.value"))], at=b, terminal_only=True, opaque_index=True))
                    ok = bool(o) and all(x.kind == "param" and x.data == 1 and not x.proj for x in o)
        ctx.check(ok, rule, "value-ctor", "a new value record's payload is not a copy of the bytes it was given", where=where(f))
        # the allocation path passes its value argument to the constructor
        va = R.need("VAL_ALLOC")
        # follow the value parameter down the call chain until it reaches the constructor (depth-limited)
        chain_ok = False
        work, seen = [(va, 2, 0)], set()
        while work:
            cur, pidx, d = work.pop()
            if (cur.id, pidx) in seen or d > 4:
                continue
            seen.add((cur.id, pidx))
            for bb, t in cur.calls():
                for i, a_ in enumerate(t["args"]):
                    o = origins(prog, cur, a_, at=bb)
                    if not (o and all(x.kind == "param" and x.data == pidx and not x.proj for x in o)):
                        continue
                    for x in prog.targets(t, cur)[0]:
                        if x.id == f.id and i == 0:
                            chain_ok = True
                        elif x.crate == "abyssiniandb":
                            work.append((x, i + 1, d + 1))
        ctx.check(chain_ok, rule, "value-alloc-chain", "the value allocation path does not hand its value argument through to the record constructor unchanged", where=where(va))
    ov = R.get("OVERWRITE")
    if ov is not None:
        st = [(b, s) for ff, b, s in field_stores(prog, pf(prog, "ValuePiece", "value")) if ff.id == ov.id]
        ok = len(st) == 1
        if ok:
            o = _through_copies(prog, ov, leaf_origins(prog, ov, st[0][1]["rhs"].get("a", {}), at=st[0][0], terminal_only=True, opaque_index=True))
            ok = bool(o) and all(x.kind == "param" and x.data == 3 and not x.proj for x in o)
            wr = calls_to(prog, ov, target_fn=R.need("VAL_REWRITE"))
            ok = ok and len(wr) == 1 and ov.dominates(st[0][0], wr[0][0])
        ctx.check(ok, rule, "overwrite-payload", "an overwrite does not replace the value record's payload with (a copy of) the value parameter before rewriting it", where=where(ov))


def _through_copies(prog, fn, os_, depth=0):
    out = []
    for o in os_:
        if o.kind == "call" and depth < 5 and o.data.get("args") and (o.data.get("callee") or "").rsplit("::", 1)[-1] in ("to_vec", "to_owned", "clone", "into", "from", "as_ref", "deref", "borrow", "as_slice"):
            out.extend(_through_copies(prog, fn, leaf_origins(prog, fn, o.data["args"][0], at=o.block, terminal_only=True, opaque_index=True), depth + 1))
        else:
            out.append(o)
    return out


def check_len_is_len_of_payload(ctx, prog, R, rule="length-field-is-payload-length"):
    """In both record writers the length field written is the length of the payload written right after it."""
    for kind, role, lenrole in (("key", "KEY_RECORD_WRITE", "W_KEY_LEN"), ("val", "VAL_RECORD_WRITE", "W_VAL_LEN")):
        f = R.need(role)
        cn = k7.Canon(prog, f)
        lw = calls_to(prog, f, target_fn=R.need(lenrole))
        raw = [(b, t) for b, t in f.calls() if t.get("callee") in ("rabuf::SmallWrite::write_all_small", "std::io::Write::write_all")]
        ok = len(lw) == 1 and len(raw) == 1 and f.dominates(lw[0][0], raw[0][0])
        if ok:
            L = _norm(cn.op(lw[0][1]["args"][1], lw[0][0]))
            P = _norm(cn.op(raw[0][1]["args"][1], raw[0][0]))
            ok = L[0] == "len" and k7.same(L[1], P)
        ctx.check(ok, rule, kind, "the %s record writer stores a length that is not the length of the payload it writes" % kind, where=where(f))


def _norm(c):
    if c[0] == "call" and len(c[2]) == 1 and c[1].rsplit("::", 1)[-1] in ("unwrap", "try_into", "into", "from", "new", "as_value", "expect", "try_from"):
        return _norm(c[2][0])
    if c[0] == "call":
        return ("call", c[1], tuple(_norm(a) for a in c[2]), c[3])
    if c[0] in ("len", "un"):
        return c[:-1] + (_norm(c[-1]),)
    if c[0] == "bin":
        return ("bin", c[1], _norm(c[2]), _norm(c[3]))
    return c
