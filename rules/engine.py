"""Check driver: contexts, obligations, violations, known findings, evidence."""
import json
import os
import sys
import time
import traceback

from . import extract
from .model import Program, AnchorError

VERIF = extract.VERIF
KNOWN = os.path.join(VERIF, "known_findings.json")
EVID = os.environ.get("ABSY_EVIDENCE_DIR") or os.path.join(VERIF, "evidence")
REPLAY = os.path.join(EVID, "replay")


class Ctx:
    def __init__(self, prop, prog, config, tier):
        self.prop = prop
        self.prog = prog
        self.config = config
        self.tier = tier
        self.obligations = []   # dicts
        self.violations = []    # dicts
        self.notes = []
        self.samples = []
        self.anchors_used = {}
        self.fns_analysed = set()
        self.sites_analysed = 0

    # -- recording -----------------------------------------------------------
    def ok(self, rule, instance, detail=None):
        self.obligations.append({"rule": rule, "instance": instance, "status": "holds", "detail": detail,
                                 "config": self.config})

    def fail(self, rule, instance, what, where=None, path=None, expected=None):
        key = "%s/%s/%s" % (self.prop, rule, instance)
        v = {"key": key, "rule": rule, "instance": instance, "what": what, "where": where,
             "path": path, "expected": expected, "config": self.config}
        self.obligations.append({"rule": rule, "instance": instance, "status": "VIOLATED", "detail": what,
                                 "config": self.config})
        self.violations.append(v)

    def check(self, cond, rule, instance, what, where=None, detail=None, path=None, expected=None):
        if cond:
            self.ok(rule, instance, detail)
        else:
            self.fail(rule, instance, what, where=where, path=path, expected=expected)
        return cond

    def floor(self, rule, what, found, floor):
        """Instance floor: fewer instances than confirmed by hand is a failure, not a pass."""
        self.check(found >= floor, rule, "floor:" + what,
                   "only %d instance(s) of %s found, expected at least %d (rule would pass vacuously)" % (found, what, floor),
                   detail="%d >= %d" % (found, floor))

    def note(self, s):
        self.notes.append(s)

    def sample(self, obj):
        if len(self.samples) < 40:
            self.samples.append(obj)

    def touch(self, fn, sites=0):
        self.fns_analysed.add(fn.id)
        self.sites_analysed += sites

    def anchor(self, role, resolver):
        """Resolve a role; on failure record a violation (fail closed) and return None."""
        try:
            fn = resolver(self.prog)
        except AnchorError as e:
            self.fail("anchor", role, "ANCHOR-UNRESOLVED: %s" % e)
            return None
        if fn is None:
            self.fail("anchor", role, "ANCHOR-UNRESOLVED: role %s not found" % role)
            return None
        self.anchors_used[role] = fn.id if hasattr(fn, "id") else [x.id for x in fn]
        return fn


def normalize_helpers(prog, config="default"):
    """See rules/inline.py: new (non-baseline) non-role helpers are inlined before any rule runs."""
    from . import inline
    from .roles import Roles, ROLES
    if inline.load_baseline(config) is None:
        return []
    reid = inline.reidentify(prog, config)
    reordered = inline.normalize_param_order(prog, config)
    R = Roles(prog)
    protect = set()
    for r in ROLES:
        try:
            f = R.get(r)
        except Exception:
            f = None
        if f is not None:
            protect.add(f.id)
    inline.strip_debug_asserts(prog)
    done = inline.normalize(prog, protect, config)
    nd = inline.devirtualize_fnptr_calls(prog)
    if nd:
        done = list(done) + ["<%d calls through function pointers to known lib functions made direct>" % nd]
    n = inline.desugar_closures(prog)
    if n:
        done = list(done) + ["<%d combinator/closure call sites desugared>" % n]
    if reid:
        done = list(done) + ["<moved / re-signed private functions given back their committed identity: %s>" % ", ".join(x.rsplit("::", 1)[-1] for x in reid)]
    if reordered:
        done = list(done) + ["<parameter order restored: %s>" % ", ".join(x.rsplit("::", 1)[-1] for x in reordered)]
    return done


def import_rules(ctx, modname, rules):
    """Evaluate another property's rule set on the same program and adopt the obligations of the named rules: they are
    necessary conditions of this property as well (e.g. a record that can overrun its slot breaks the slot rule *and*
    the map semantics).  Keys become <this property>/<rule>/<instance>."""
    import importlib
    mod = importlib.import_module("rules." + modname)
    cache = getattr(ctx.prog, "_rule_cache", None)
    if cache is None:
        cache = ctx.prog._rule_cache = {}
    if modname not in cache:
        sub = Ctx(modname.upper(), ctx.prog, ctx.config, ctx.tier)
        try:
            getattr(mod, "_check_own", mod.check)(sub)      # the other property's own rules only (no transitive imports)
        except AnchorError as e:
            sub.fail("anchor", "unresolved", "ANCHOR-UNRESOLVED: %s" % e)
        cache[modname] = sub
    sub = cache[modname]
    n = 0
    for o in sub.obligations:
        if o["rule"] in rules:
            ctx.obligations.append(dict(o, detail=(o["detail"] or "") if o["status"] == "holds" else o["detail"]))
            n += 1
    for v in sub.violations:
        if v["rule"] in rules:
            ctx.violations.append(dict(v, key="%s/%s/%s" % (ctx.prop, v["rule"], v["instance"])))
    for r in sorted(rules):
        if not any(o["rule"] == r for o in sub.obligations) and not any(v["rule"] == r for v in sub.violations):
            ctx.fail("import", "%s:%s" % (modname, r), "rule %s of the %s rule set produced no obligation: the adopted clause is vacuous" % (r, modname.upper()))
    ctx.fns_analysed |= sub.fns_analysed
    ctx.note("adopted %d obligations of rules %s from the %s rule set" % (n, sorted(rules), modname.upper()))
    return n


def load_known():
    if not os.path.exists(KNOWN):
        return {"findings": [], "fixed": []}
    with open(KNOWN) as fh:
        return json.load(fh)


def run_property(prop, rule_fn, tier, configs, explanation, not_decided, assumptions):
    """Evaluate one property's rule set over the given feature configurations.
    Returns process exit code."""
    t0 = time.time()
    seed = int(os.environ.get("VERIF_SEED", "0") or 0)
    known = load_known()
    known_keys = {f["key"]: f for f in known.get("findings", []) if f.get("property") == prop}
    all_obl = []
    all_viol = []
    notes = []
    samples = []
    metas = []
    anchors = {}
    fns_analysed = set()
    sites = 0
    crash = None
    for cfg in configs:
        try:
            facts, meta = extract.extract(cfg)
            metas.append(meta)
            prog = Program(facts)
            inlined = normalize_helpers(prog, cfg)
            ctx = Ctx(prop, prog, cfg, tier)
            if inlined:
                ctx.note("helper normalisation: %d new non-role function(s) inlined into their callers: %s" % (len(inlined), ", ".join(sorted(x.rsplit("::", 1)[-1] for x in inlined))))
            try:
                rule_fn(ctx)
            except AnchorError as e:
                ctx.fail("anchor", "unresolved", "ANCHOR-UNRESOLVED: %s" % e)
            all_obl.extend(ctx.obligations)
            all_viol.extend(ctx.violations)
            notes.extend(ctx.notes)
            if cfg == configs[0]:
                samples = ctx.samples
                anchors = ctx.anchors_used
            fns_analysed |= ctx.fns_analysed
            sites += ctx.sites_analysed
        except Exception as e:  # fail closed, but say what happened
            crash = "%s: %s" % (type(e).__name__, e)
            traceback.print_exc()
            all_viol.append({"key": "%s/engine/%s" % (prop, cfg), "rule": "engine", "instance": cfg,
                             "what": "check could not be evaluated: %s" % crash, "config": cfg})
    # de-duplicate violations across configs by key
    seen = {}
    for v in all_viol:
        seen.setdefault(v["key"], v)
    viols = list(seen.values())
    new = [v for v in viols if v["key"] not in known_keys]
    kn = [v for v in viols if v["key"] in known_keys]
    os.makedirs(REPLAY, exist_ok=True)
    for v in kn:
        print("KNOWN-FINDING: property=%s %s %s" % (prop, v["key"], known_keys[v["key"]].get("what", v["what"])))
    for v in new:
        rp = os.path.join(REPLAY, "%s.json" % v["key"].replace("/", "__").replace(" ", "_")[:150])
        with open(rp, "w") as fh:
            json.dump(v, fh, indent=1)
        print("VIOLATION property=%s replay=%s" % (prop, rp))
        print("  rule=%s instance=%s config=%s" % (v["rule"], v["instance"], v.get("config")))
        print("  what: %s" % v["what"])
        if v.get("where"):
            print("  where: %s" % v["where"])
        if v.get("expected"):
            print("  expected: %s" % v["expected"])
        if v.get("path"):
            print("  path: %s" % v["path"])
    # stale known findings are reported (not an error): the finding no longer reproduces
    for k in known_keys:
        if k not in seen and not crash:
            print("note: known finding %s no longer reported on this tree" % k)
    n_obl = len(all_obl)
    n_ok = sum(1 for o in all_obl if o["status"] == "holds")
    distinct = len({(o["rule"], o["instance"]) for o in all_obl})
    wall = round(time.time() - t0, 3)
    ev = {
        "property_id": prop,
        "tier": tier,
        "seed": seed,
        "level": "other",
        "coverage": {
            "explanation": explanation,
            "not_decided": not_decided,
            "obligations": n_obl,
            "discharged": n_ok,
            "evaluations": max(n_obl, 1),
            "distinct_nontrivial": distinct,
            "rule": "one obligation per (rule, instance, feature configuration); distinct = distinct (rule, instance) "
                    "pairs with a resolved anchor and at least one analysed site",
            "samples": (samples or [{"rule": o["rule"], "instance": o["instance"], "status": o["status"],
                                     "detail": o["detail"]} for o in all_obl[:25]]),
            "obligation_list": [{"rule": o["rule"], "instance": o["instance"], "status": o["status"],
                                 "config": o["config"], "detail": o["detail"]} for o in all_obl],
            "functions_analysed": len(fns_analysed),
            "call_sites_analysed": sites,
            "feature_configs": configs,
            "extraction": metas,
            "anchors": anchors,
            "known_findings_reported": [v["key"] for v in kn],
            "new_violations": [v["key"] for v in new],
            "notes": notes[:50],
            "checker_cmd": "./check %s --tier %s" % (prop, tier),
            "trusted_base": ["rustc nightly type checker, MIR construction and const evaluation",
                             "/verif/driver fact extractor", "/verif/rules Python rule engine",
                             "hand-confirmed role/anchor tables and allow-lists in /verif/rules"],
        },
        "assumptions": assumptions,
        "wall_s": wall,
        "violations": len(new),
    }
    os.makedirs(EVID, exist_ok=True)
    tmp = os.path.join(EVID, "%s.json.tmp%d" % (prop, os.getpid()))
    with open(tmp, "w") as fh:
        json.dump(ev, fh, indent=1, default=str)
    os.replace(tmp, os.path.join(EVID, "%s.json" % prop))
    print("%s: %d obligations, %d hold, %d known finding(s), %d new violation(s) [%s; %.1fs]"
          % (prop, n_obl, n_ok, len(kn), len(new), ",".join(configs), wall))
    return 1 if new else 0
