"""Cursor typestate for the record files: every field of a record / free slot is read or written at the position the
layout gives it, i.e. after exactly the fields that precede it since the last positioning call.

State = (base, tokens): base 'abs' = position known relative to a slot start (after seek_from_start / seek_skip_to_*),
'rel' = relative to the (unknown) position at function entry, None = conflicting paths.  Calls into other crate
functions that move the cursor apply that function's summary (exit state)."""
from .util import where

POSITION = {"SEEK_START": (), "EXTEND": ()}
SKIP_TO = ("seek_skip_to_piece_key", "seek_skip_to_piece_value")
# role -> (required tokens before it, token appended)
FIELD = {
    "R_PIECE_SIZE": ((), "size"), "W_PIECE_SIZE": ((), "size"),
    "R_KEY_LEN": (("size",), "len"), "W_KEY_LEN": (("size",), "len"), "R_VAL_LEN": (("size",), "len"), "W_VAL_LEN": (("size",), "len"),
    "R_FREE_OFFSET": (("size", "len"), "next"), "W_FREE_OFFSET": (("size", "len"), "next"),
}
RAW_CALLEES = ("rabuf::SmallRead::read_exact_maybeslice", "std::io::Write::write_all", "rabuf::SmallWrite::write_all_small")
FIELD_NAMES = {"size": "slot size", "len": "length", "raw": "payload", "off": "offset field", "next": "free-list link"}


def _vfile_helpers(prog):
    from .roles import VARFILE, M_VFILE
    from .model import short
    return [(f, [short(x) for x in f.inputs], short(f.output)) for f in prog.fns.values()
            if f.crate == "abyssiniandb" and f.impl_self_adt == VARFILE and f.impl_trait is None and f.module == M_VFILE and len(f.inputs) == 2]


def skip_len_fns(prog):
    """seek_skip_length: (&mut VarFile, Length<T>) -> Result<Offset<T>> (by name, else by signature)"""
    hs = _vfile_helpers(prog)
    named = [f for f, i, o in hs if f.name == "seek_skip_length"]
    return named or [f for f, i, o in hs if i[1].startswith("Length<") and o.startswith("Result<Offset<")]


def skip_to_fns(prog):
    """seek_skip_to_piece_key / _value: (&mut VarFile, Offset<Piece<T>>) -> Result<Offset<Piece<T>>> (by name, else by signature)"""
    hs = _vfile_helpers(prog)
    named = [f for f, i, o in hs if f.name in SKIP_TO]
    return named if len(named) == len(SKIP_TO) else [f for f, i, o in hs if i[1].startswith("Offset<Piece<") and o.startswith("Result<Offset<Piece<")]


class Cursor:
    def __init__(self, prog, R):
        self.prog = prog
        self.R = R
        self.role_of = {}
        for r in list(FIELD) + ["R_PIECE_OFFSET", "W_PIECE_OFFSET", "SEEK_START", "EXTEND", "ZERO_PAD"]:
            f = R.get(r)
            if f is not None:
                self.role_of[f.id] = r
        self.skip_len = [f.id for f in skip_len_fns(prog)]
        self.skip_to = [f.id for f in skip_to_fns(prog)]
        self.summ = {}
        self.visiting = set()

    def op_of(self, fn, t):
        """('pos', tokens) | ('field', role) | ('raw',) | ('off', role) | ('pad',) | ('call', callee fn) | None"""
        c = t.get("callee") or ""
        tg = self.prog.targets(t, fn)[0]
        ids = [x.id for x in tg]
        for i in ids:
            r = self.role_of.get(i)
            if r in ("SEEK_START", "EXTEND"):
                return ("pos", ())
            if r in FIELD:
                return ("field", r)
            if r in ("R_PIECE_OFFSET", "W_PIECE_OFFSET"):
                return ("off", r)
            if r == "ZERO_PAD":
                return ("pad",)
            if i in self.skip_to:
                return ("pos", ("size",))
            if i in self.skip_len:
                return ("raw",)
        if c in RAW_CALLEES and fn.crate == "abyssiniandb":
            return ("raw",)
        for x in tg:
            if x.crate == "abyssiniandb" and x.id not in self.role_of:
                s = self.summary(x)
                if s is not None and s != ("rel", ()):
                    return ("call", x)
        return None

    def summary(self, fn):
        if fn.id in self.summ:
            return self.summ[fn.id]
        if fn.id in self.visiting:
            return None
        self.visiting.add(fn.id)
        states, _ = self.run(fn, check=None)
        outs = {states.get(b) for b in fn.return_blocks() if b in states}
        outs.discard("unreached")
        res = outs.pop() if len(outs) == 1 else (("rel", ()) if not outs else None)
        self.visiting.discard(fn.id)
        self.summ[fn.id] = res
        return res

    def run(self, fn, check):
        """Forward dataflow; returns (state at block exit, violations)."""
        entry = ("rel", ())
        inn = {0: entry}
        out = {}
        work = [0]
        viol = []
        err = fn.error_blocks()
        n = 0
        while work and n < 5000:
            n += 1
            b = work.pop()
            st = inn[b]
            t = fn.blocks[b]["term"]
            if t and t["t"] == "call" and not fn.is_cleanup(b):
                op = self.op_of(fn, t)
                if op is not None:
                    st, v = self.apply(fn, b, st, op)
                    if v and check is not None:
                        viol.append(v)
            out[b] = st
            if b in err:
                continue        # an error is being propagated: the cursor no longer matters on this path
            for s in fn.normal_succs(b):
                if fn.is_cleanup(s) or s in err:
                    continue
                new = st if s not in inn else self.merge(inn[s], st)
                if s not in inn or new != inn[s]:
                    inn[s] = new
                    work.append(s)
        return out, viol

    @staticmethod
    def merge(a, b):
        return a if a == b else None

    def apply(self, fn, b, st, op):
        kind = op[0]
        if kind == "pos":
            return ("abs", tuple(op[1])), None
        if kind == "pad":
            return ("abs", ("end",)) if st is not None and st[0] == "abs" else st, None
        if kind == "call":
            s = self.summary(op[1])
            if s is None:
                return None, None
            if s[0] == "abs":
                return s, None
            if st is None:
                return None, None
            return (st[0], st[1] + s[1]), None
        if st is None:
            return None, None
        base, toks = st
        if kind == "field":
            need, tok = FIELD[op[1]]
            v = None
            if base == "abs" and tuple(toks) != tuple(need):
                v = (b, op[1], toks, need)
            return (base, toks + (tok,)), v
        if kind == "raw":
            v = None
            if base == "abs" and tuple(toks) != ("size", "len"):
                v = (b, "RAW", toks, ("size", "len"))
            return (base, toks + ("raw",)), v
        if kind == "off":
            v = None
            if base == "abs" and tuple(toks) not in (("size", "len", "raw"), ("size", "len", "raw", "off")):
                v = (b, op[1], toks, ("size", "len", "raw"))
            return (base, toks + ("off",)), v
        return st, None


def check_cursor(ctx, prog, R, modules, rule="field-position"):
    cur = Cursor(prog, R)
    # file headers are not slots: their writers / checkers are covered by the header rules (C12, C13, C18)
    header_fns = {R.get(r).id for r in ("HDR_INIT_KEY", "HDR_INIT_VAL", "HDR_INIT_HTX", "HDR_CHECK_KEY", "HDR_CHECK_VAL", "HDR_CHECK_HTX") if R.get(r)}
    n_ops = 0
    n_abs = 0
    for fn in sorted(prog.fns.values(), key=lambda f: f.id):
        if fn.crate != "abyssiniandb" or fn.module not in modules or fn.kind == "Closure":
            continue
        if fn.id in cur.role_of or fn.id in cur.skip_to or fn.id in cur.skip_len or fn.id in header_fns:
            continue
        ops = [(b, cur.op_of(fn, t)) for b, t in fn.calls()]
        ops = [(b, o) for b, o in ops if o is not None and o[0] in ("field", "raw", "off")]
        if not ops:
            continue
        ctx.touch(fn, len(ops))
        states, viol = cur.run(fn, check=True)
        n_ops += len(ops)
        for (b, role, toks, need) in viol:
            ctx.fail(rule, "%s:%s" % (fn.name, role),
                     "%s accesses the %s at the wrong position in the slot: the cursor is after [%s], the layout puts that field after [%s] "
                     "(a neighbouring field or slot is read / overwritten instead)"
                     % (fn.name, {"RAW": "payload", "W_FREE_OFFSET": "free-list link", "R_FREE_OFFSET": "free-list link"}.get(role, role),
                        ", ".join(toks) or "slot start", ", ".join(need) or "slot start"), where=where(fn, b))
        if not viol:
            ctx.ok(rule, fn.name if fn.impl_self is None else "%s::%s" % (fn.impl_self_adt.rsplit("::", 1)[-1] if fn.impl_self_adt else "?", fn.name), "%d field accesses at their layout position" % len(ops))
    return n_ops
