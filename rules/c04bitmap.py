"""Bitmap maintenance (shared by C04 and C05): every bucket-head write also maintains the occupancy bitmap."""
from .model import const_val
from .roles import M_HTX, VARFILE, WRITE_ATOMS, io_effects
from .util import calls_to, origins, where, find_bool_split, region_dominated, const_origin


def has_bitmap(prog):
    return "htx_bitmap" in prog.features.get("abyssiniandb", [])


def check_bitmap(ctx, prog, R):
    store = R.need("BUCKET_STORE")
    ctx.touch(store, len(store.blocks))
    io = io_effects(prog)
    # inventory of functions that can write the htx file: module-level functions on VarFile in the htx module + the open
    writers = []
    for fn in prog.fns.values():
        if fn.crate == "abyssiniandb" and fn.module == M_HTX and fn.kind != "Closure":
            own_write = False
            for b, t in fn.calls():
                c = t.get("callee") or ""
                if c.startswith("rabuf::SmallWrite::") or c in ("std::io::Write::write_all", "std::io::Write::write"):
                    own_write = True
                tg, _ = prog.targets(t, fn)
                if any(x.id == R.need("SET_LEN").id for x in tg):
                    own_write = True
            if own_write:
                writers.append(fn)
    expected = {R.need("HDR_INIT_HTX").id, R.need("HTX_OPEN").id, R.need("CNT_WRITE").id, store.id}
    got = {f.id for f in writers}
    # a writer nobody calls (the mis-named, unused bucket-count writer of the pinned tree) cannot bypass anything
    allowed_unused = {i for i in got - expected if not prog.callers().get(i)}
    extra = got - expected - allowed_unused
    ctx.check(not extra, "htx-writers", "inventory",
              "new function(s) write into the hash-table file: %s; only the header initialiser, the open (tail zero), the count writer "
              "and the bucket-head store may (a second head writer would bypass the bitmap)" % sorted(extra))
    ctx.check(expected <= got, "htx-writers", "floor", "expected htx writers not all found: missing %s" % sorted(expected - got))
    for uid in allowed_unused:
        callers = prog.callers().get(uid, [])
        ctx.check(not callers, "htx-writers", "unused-size-writer", "the (mis-named) bucket-count writer is now called from %s" % [f.id for f, _ in callers])
    # the head store writes the bucket slot at HEADER + 8*idx with the given offset
    w64 = calls_to(prog, store, callee="rabuf::SmallWrite::write_u64_le")
    ctx.check(len(w64) == 1, "bucket-store", "one-u64-write", "the bucket-head store does not perform exactly one 8-byte write", where=where(store))
    if not has_bitmap(prog):
        ctx.note("htx_bitmap feature off in this configuration: bitmap pairing not instantiated")
        return
    w8 = calls_to(prog, store, callee="rabuf::SmallWrite::write_u8")
    r8 = calls_to(prog, store, callee="rabuf::SmallRead::read_u8")
    ok = len(w8) == 1 and len(r8) == 1
    ctx.check(ok, "bitmap-maintained", "byte-rmw", "the bucket-head store does not read-modify-write exactly one bitmap byte", where=where(store))
    if not ok:
        return
    wb = w8[0][0]
    ctx.check(not store.success_reach_return(0, [wb]), "bitmap-maintained", "must-write",
              "a bucket head can be stored without updating the occupancy bitmap (iteration would skip or mis-visit the bucket)", where=where(store))
    ctx.check(bool(w64) and not store.success_reach_return(0, [w64[0][0]]), "bitmap-maintained", "must-store", "the bucket-head store can return Ok without writing the bucket", where=where(store))
    # set / clear arms on offset.is_zero()
    from .util import zero_splits
    sp = zero_splits(prog, store, lambda a: all(x.kind == "param" and x.data == 4 for x in a))
    if ctx.check(len(sp) == 1, "bitmap-maintained", "zero-split", "cannot find the `offset.is_zero()` split in the bucket-head store", where=where(store)):
        rz, rn = region_dominated(store, sp[0]["true"]), region_dominated(store, sp[0]["false"])
        ops_z, ops_n = _binops(store, rz), _binops(store, rn)
        ctx.check("BitAnd" in ops_z and "BitOr" not in ops_z, "bitmap-maintained", "clear-on-zero",
                  "storing an empty head does not clear the bucket's bitmap bit (ops on the zero arm: %s)" % sorted(ops_z), where=where(store, sp[0]["true"]))
        ctx.check("BitOr" in ops_n and "BitAnd" not in ops_n, "bitmap-maintained", "set-on-nonzero",
                  "storing a non-empty head does not set the bucket's bitmap bit (ops on the non-zero arm: %s)" % sorted(ops_n), where=where(store, sp[0]["false"]))
    # exact mask expressions:  zero arm  byte & !(1 << (idx % 8)) ;  non-zero arm  byte | (1 << (idx % 8)) ;  byte index idx / 8
    from . import k7
    cn = k7.Canon(prog, store)

    def is_bit(c):
        return c[0] == "bin" and c[1] == "Shl" and c[2] == ("c", 1) and c[3][0] == "bin" and c[3][1] == "Rem" and c[3][3] == ("c", 8) and c[3][2][0] == "p" and c[3][2][1] == 3
    masks = {"BitAnd": [], "BitOr": []}
    for b, blk in enumerate(store.blocks):
        if blk["cleanup"]:
            continue
        for st in blk["stmts"]:
            if st["s"] == "assign" and st["rhs"]["rv"] == "bin" and st["rhs"]["op"] in masks:
                masks[st["rhs"]["op"]].append((b, cn.op(st["rhs"]["b"], b)))
    and_ok = len(masks["BitAnd"]) == 1 and masks["BitAnd"][0][1][0] == "un" and masks["BitAnd"][0][1][1] == "Not" and is_bit(masks["BitAnd"][0][1][2])
    or_ok = len(masks["BitOr"]) == 1 and is_bit(masks["BitOr"][0][1])
    ctx.check(and_ok, "bitmap-maintained", "clear-mask", "clearing a bucket's bitmap bit does not use the mask !(1 << (idx %% 8)) (found %s): other buckets' bits are cleared too and iteration skips them"
              % [k7.expr_str(m) for b, m in masks["BitAnd"]], where=where(store))
    ctx.check(or_ok, "bitmap-maintained", "set-mask", "setting a bucket's bitmap bit does not use the mask 1 << (idx %% 8) (found %s)" % [k7.expr_str(m) for b, m in masks["BitOr"]], where=where(store))
    sk = calls_to(prog, store, target_fn=R.need("SEEK_START"))
    byte_seeks = [cn.op(t["args"][1], b) for b, t in sk if store.dominates(b, wb)]
    ok = any(_has(e, lambda c: c[0] == "bin" and c[1] == "Div" and c[3] == ("c", 8) and c[2][0] == "p" and c[2][1] == 3) for e in byte_seeks)
    ctx.check(ok, "bitmap-maintained", "byte-index", "the bitmap byte of bucket idx is not addressed at bitmap_base + idx / 8", where=where(store))
    # the byte written originates from the byte read
    o = origins(prog, store, w8[0][1]["args"][1], at=w8[0][0])
    # `byte &= m` (same variable: the read is one of its definitions) or `let byte = byte & m` (the read is the left operand)
    o = list(o)
    for x in list(o):
        if x.kind == "bin":
            for side in ("a", "b"):
                if x.data[side].get("k") in ("cp", "mv"):
                    o.extend(origins(prog, store, x.data[side], at=x.block))
    ctx.check(bool(o) and any(x.kind == "bin" for x in o) and any(x.kind == "call" and x.data.get("callee") == "rabuf::SmallRead::read_u8" for x in o),
              "bitmap-maintained", "rmw-origin", "the bitmap byte written is not derived from the byte read (%s)" % o, where=where(store, wb))


def _binops(fn, region):
    out = set()
    for b in region:
        for s in fn.blocks[b]["stmts"]:
            if s["s"] == "assign" and s["rhs"]["rv"] == "bin":
                out.add(s["rhs"]["op"])
    return out


def _has(c, pred):
    if pred(c):
        return True
    if c[0] == "bin":
        return _has(c[2], pred) or _has(c[3], pred)
    if c[0] in ("un", "len"):
        return _has(c[-1], pred)
    if c[0] == "call":
        return any(_has(a, pred) for a in c[2])
    return False
