"""C02 - clean close and reopen preserves the exact map contents."""
from .model import short, const_val
from .roles import Roles, role_effects, io_effects, WRITE_ATOMS
from .util import where, origins, calls_to, region_dominated, reachable_fns, field_reads, leaf_origins
from .c13 import zero_split
from .fields import fq
from . import k5

EXPLANATION = (
    "(1) Open never destroys: each of the three file opens builds its OpenOptions with the constants read(true) "
    "write(true) create(true) truncate(false); the lib calls none of File::create, fs::remove_*, fs::write, fs::rename, "
    "create_new (expected count 0). (2) Existing files are never re-initialised and nothing is written when one is "
    "opened: split on `file_length.is_zero()`, the header initialiser is reachable only on the zero arm (and only from "
    "the opens), the non-zero arm must-call the header check and has no write-class effect at all; on the non-zero arm "
    "of the hash-table open the cached bucket count comes from the header and the caller's buckets_size is not read. "
    "(3) Handles cannot skip the flushing drop: no mem::forget / ManuallyDrop::new / Box::leak / Rc::into_raw / "
    "process::exit|abort in the lib, and the dependency's buffered file still flushes in Drop. (4) Placement is "
    "process-independent: the call closure of HashValue::hash_value constructs its hasher by a derived Default of a "
    "crate-local type and reaches no random-state / time / pid / env / thread / address source.")
NOT_DECIDED = ("that what Drop writes equals the logical state (rabuf's write-back correctness); equality of contents across "
               "a close/reopen (run-time); interleavings of close/reopen with updates.")
ASSUMPTIONS = ["std::fs::OpenOptions semantics", "rabuf::RaBuf<T> only instantiated with std::fs::File (checked)"]

KINDS = [("key", "KEY_OPEN", "HDR_INIT_KEY", "HDR_CHECK_KEY"), ("val", "VAL_OPEN", "HDR_INIT_VAL", "HDR_CHECK_VAL"), ("htx", "HTX_OPEN", "HDR_INIT_HTX", "HDR_CHECK_HTX")]
WANT_OPTS = {"read": True, "write": True, "create": True, "truncate": False}


def _check_own(ctx):
    prog = ctx.prog
    R = Roles(prog)
    io = io_effects(prog)
    eff = role_effects(prog, R, [k[2] for k in KINDS] + [k[3] for k in KINDS])
    n_opts = 0
    for kind, r_open, r_init, r_check in KINDS:
        fn = R.need(r_open)
        ctx.touch(fn, len(fn.blocks))
        got = {}
        for b, t in fn.calls():
            c = t.get("callee") or ""
            if c.startswith("std::fs::OpenOptions::") and c.rsplit("::", 1)[1] in ("read", "write", "create", "truncate", "append", "create_new"):
                got.setdefault(c.rsplit("::", 1)[1], []).append(const_val(t["args"][1]))
        for opt, want in WANT_OPTS.items():
            n_opts += 1
            ctx.check(got.get(opt) == [want], "open-never-destroys", "%s:%s(%s)" % (kind, opt, str(want).lower()),
                      "the %s file is opened with %s(%s), expected %s(%s)%s" % (kind, opt, got.get(opt), opt, str(want).lower(),
                                                                               ": an existing file would be emptied" if opt == "truncate" else ""), where=where(fn))
        ctx.check(not got.get("create_new") and not got.get("append"), "open-never-destroys", kind + ":no-other-flags", "unexpected OpenOptions flags %s" % sorted(got), where=where(fn))
        # (2)
        sp = zero_split(prog, R, fn)
        if not ctx.check(len(sp) == 1, "init-only-on-empty", kind + ":split", "cannot find the file-length split in the %s open" % kind, where=where(fn)):
            continue
        zero, nonzero = sp[0]["true"], sp[0]["false"]
        rz, rn = region_dominated(fn, zero), region_dominated(fn, nonzero)
        init = R.need(r_init)
        sites = calls_to(prog, fn, target_fn=init)
        ctx.check(len(sites) == 1 and sites[0][0] in rz, "init-only-on-empty", kind + ":init-on-zero-arm",
                  "the %s header initialiser is not called exactly once, on the empty-file arm (an existing file could be re-initialised)" % kind, where=where(fn))
        callers = {f.id for f, b in prog.callers().get(init.id, [])}
        ctx.check(callers == {fn.id}, "init-only-on-empty", kind + ":init-callers", "the %s header initialiser is called from %s" % (kind, sorted(short(c) for c in callers)))
        ctx.check(eff.must_from(fn, nonzero, r_check) is True, "init-only-on-empty", kind + ":check-on-nonzero-arm", "an existing %s file can be opened without the header check" % kind, where=where(fn, nonzero))
        w = io.region_may(fn, rn) & WRITE_ATOMS
        ctx.check(not w, "init-only-on-empty", kind + ":reopen-writes-nothing", "opening an existing %s file can modify it (%s)" % (kind, sorted(w)), where=where(fn, nonzero))
        ctx.check(eff.must_from(fn, zero, r_init) is True, "init-only-on-empty", kind + ":init-must-on-zero-arm", "a new %s file can be returned without a header" % kind, where=where(fn, zero))
    ctx.floor("open-never-destroys", "OpenOptions flags checked", n_opts, 12)
    reads = [(f, b) for f, b, pl in field_reads(prog, fq(prog, "PARAMS.buckets_size")) if not f.from_expansion]
    hopen = R.need("HTX_OPEN")
    sp = zero_split(prog, R, hopen)
    if sp:
        rz = region_dominated(hopen, sp[0]["true"])
        ctx.check(bool(reads) and all(f.id == hopen.id and b in rz for f, b in reads), "init-only-on-empty", "htx:params-ignored-on-reopen",
                  "the caller's buckets_size is read when an existing hash table is opened", where=where(hopen))
    # destructive operations: expected count zero (positive control: the fixture crate)
    d = k5.matches(prog, k5.DESTRUCTIVE)
    from . import poscontrol
    poscontrol.regex_control(ctx, "destructive-fs", k5.DESTRUCTIVE, "destructive_create")
    poscontrol.regex_control(ctx, "destructive-fs", k5.DESTRUCTIVE, "destructive_remove")
    poscontrol.regex_control(ctx, "leak", k5.LEAK, "leak_forget")
    poscontrol.regex_control(ctx, "leak", k5.LEAK, "leak_exit")
    poscontrol.nondet_control(ctx)
    ctx.check(not d, "open-never-destroys", "no-destructive-fs-calls", "the lib calls %s" % sorted({t["callee"] for f, b, t in d}),
              where="; ".join(where(f, b) for f, b, t in d[:4]))
    # (3) leaks
    lk = k5.matches(prog, k5.LEAK)
    ctx.check(not lk, "drop-not-skipped", "no-leak-calls", "the lib calls %s: a handle could skip the flushing drop" % sorted({t["callee"] for f, b, t in lk}),
              where="; ".join(where(f, b) for f, b, t in lk[:4]))
    drops = [f for f in prog.fns.values() if f.crate == "rabuf" and f.name == "drop" and f.impl_trait == "core::ops::drop::Drop" and (f.impl_self_adt or "") == "rabuf::RaBuf"]
    if ctx.check(len(drops) == 1, "drop-not-skipped", "rabuf-drop:anchor", "Drop for rabuf::RaBuf not found (dependency changed?)"):
        f = drops[0]
        ctx.touch(f)
        fl = [(b, t) for b, t in f.calls() if (t.get("callee") or "") == "std::io::Write::flush"]
        ctx.check(len(fl) >= 1 and not f.success_reach_return(0, [b for b, t in fl]), "drop-not-skipped", "rabuf-drop-flushes",
                  "the buffered file no longer flushes when dropped: updates would be lost at close", where=where(f))
    user_drops = [f for f in prog.fns.values() if f.crate == "abyssiniandb" and f.name == "drop" and f.impl_trait == "core::ops::drop::Drop"]
    for f in user_drops:
        w = io.may[f.id] & WRITE_ATOMS
        ctx.check(not w, "drop-not-skipped", "lib-drop:" + short(f.impl_self or "?"), "a Drop impl of the lib modifies files (%s)" % sorted(w), where=where(f))
    # (4) placement
    check_seedless(ctx, prog)
    # (5) the open-time header checks only look at bytes no update ever writes
    check_header_check_window(ctx, prog, R)


RWIDTH = {"read_u64_le": 8, "read_u32_le": 4, "read_u16_le": 2, "read_u8": 1}


def _seek_const(prog, fn, b, t):
    """constant byte offset of a seek_from_start(Offset::new(<const expr>)) call, else None"""
    from . import k7
    cn = k7.Canon(prog, fn)
    c = cn.op(t["args"][1], b)
    for _ in range(4):
        if c[0] == "call" and c[1].endswith("::new") and len(c[2]) == 1:
            c = c[2][0]
    return c[1] if c[0] == "c" else None


def header_check_reads(prog, fn, seek_start):
    """[(block, start, width)] of the reads of a header check in dominance order (start None if not a constant)."""
    evs = []
    for b, t in fn.calls():
        if fn.is_cleanup(b) or b in fn.error_blocks():
            continue
        cal = t.get("callee") or ""
        nm = cal.rsplit("::", 1)[-1]
        tg = prog.targets(t, fn)[0]
        if any(x.id == seek_start.id for x in tg):
            evs.append((b, "seek", _seek_const(prog, fn, b, t)))
        elif any(x.crate == "abyssiniandb" for x in tg) and not (nm in RWIDTH or nm in ("read_exact", "read_exact_small")):
            evs.append((b, "seek", None))      # any other lib call may move the cursor
        elif nm in RWIDTH:
            evs.append((b, "read", RWIDTH[nm]))
        elif nm in ("read_exact", "read_exact_small"):
            w = None
            for o in leaf_origins(prog, fn, t["args"][1], at=b, terminal_only=True):
                ty = fn.local_ty(o.data) if o.kind in ("local", "param") else (fn.local_ty(o.data["lhs_local"]) if isinstance(o.data, dict) and "lhs_local" in o.data else "")
                if o.kind == "agg" and o.data.get("agg") == "array":
                    w = len(o.data["ops"])
                elif o.kind == "repeat":
                    w = o.data.get("n")
                elif ty.startswith("[u8; "):
                    w = int(ty[5:-1])
            evs.append((b, "read", w))
        elif nm.startswith("read"):
            evs.append((b, "read", None))
    evs.sort(key=lambda x: len(fn.dominators().get(x[0], ())))
    out, pos = [], None
    for b, kind, v in evs:
        if kind == "seek":
            pos = v
        else:
            out.append((b, pos, v))
            pos = pos + v if (pos is not None and v is not None) else None
    return out


def check_header_check_window(ctx, prog, R, rule="header-check-immutable-window"):
    """A check run on every reopen must not depend on bytes that updates write: it reads only inside [0, W), W the lowest
    header offset written after initialisation (record files: the first free-list head; table file: the item count)."""
    from . import tables
    from .roles import M_KEY, M_VAL
    wins = {}
    for kind, mod in (("key", M_KEY), ("val", M_VAL)):
        t = tables.table(prog, mod, "REC_SIZE_FREE_OFFSET")
        wins[kind] = min(t) if t else None
    cw = R.need("CNT_WRITE")
    seek_start = R.need("SEEK_START")
    sk = [(b, t) for b, t in cw.calls() if any(x.id == seek_start.id for x in prog.targets(t, cw)[0])]
    wins["htx"] = _seek_const(prog, cw, sk[0][0], sk[0][1]) if len(sk) == 1 else None
    for kind, role in (("key", "HDR_CHECK_KEY"), ("val", "HDR_CHECK_VAL"), ("htx", "HDR_CHECK_HTX")):
        fn = R.need(role)
        ctx.touch(fn)
        W = wins[kind]
        if not ctx.check(isinstance(W, int) and W >= 16, rule, kind + ":window", "cannot determine the first mutable header offset of the %s file" % kind, where=where(fn)):
            continue
        rs = header_check_reads(prog, fn, seek_start)
        ctx.floor(rule, kind + " header-check reads", len(rs), 3)
        for i, (b, pos, w) in enumerate(rs):
            ok = pos is not None and w is not None and 0 <= pos and pos + w <= W
            ctx.check(ok, rule, "%s:read#%d" % (kind, i),
                      "the %s header check reads bytes [%s, %s) but updates write the header from offset %d on: reopening can be refused (or pass) depending on the history"
                      % (kind, pos, (pos + w) if (pos is not None and w is not None) else "?", W), where=where(fn, b))


def check_seedless(ctx, prog, rule="placement-process-independent"):
    hv = prog.fns.get("abyssiniandb::HashValue::hash_value")
    if not ctx.check(hv is not None, rule, "anchor", "default HashValue::hash_value not found"):
        return
    ctx.touch(hv)
    overrides = [i for i in prog.impls if i["crate"] == "abyssiniandb" and i.get("trait") == "abyssiniandb::HashValue" and i["items"]]
    ctx.check(not overrides, rule, "no-override", "hash_value is overridden for %s" % [short(i["self"]) for i in overrides])
    closure = reachable_fns(prog, [hv], crates=("abyssiniandb", "vu64", "rabuf"))
    bad = []
    for fn in closure.values():
        for b, t in fn.calls():
            c = t.get("callee") or ""
            for nm, rx in k5.NONDET:
                if rx.search(c):
                    bad.append((nm, fn, b, c))
    std_default = "std_default_hasher" in prog.features.get("abyssiniandb", [])
    ctx.check(not bad, rule, "no-nondeterminism-source",
              "the placement hash reaches %s" % sorted({(nm, c) for nm, f, b, c in bad}), where="; ".join(where(f, b) for nm, f, b, c in bad[:3]))
    # the hasher is built by Default::default of a crate-local type whose Default is derived
    ctor = [(b, t) for b, t in hv.calls() if (t.get("callee") or "") == "core::default::Default::default"]
    ok = len(ctor) == 1 and (ctor[0][1].get("gargs") or [""])[0].startswith("abyssiniandb::")
    if ok:
        ty = ctor[0][1]["gargs"][0]
        im = [i for i in prog.impls if i["crate"] == "abyssiniandb" and i["self"] == ty and i.get("trait") == "core::default::Default"]
        ok = len(im) == 1 and im[0]["from_expansion"]
    if not std_default:
        ctx.check(ok, rule, "hasher-default-constructed", "the placement hasher is not a derived-Default value of a crate-local type (a seed could enter)", where=where(hv))
    fin = [(b, t) for b, t in hv.calls() if (t.get("callee") or "") == "core::hash::Hasher::finish"]
    hs = [(b, t) for b, t in hv.calls() if (t.get("callee") or "") == "core::hash::Hash::hash"]
    ctx.check(len(fin) == 1 and len(hs) == 1, rule, "hash-then-finish", "hash_value is not hash(self) then finish()", where=where(hv))


def check(ctx):
    _check_own(ctx)
    from .engine import import_rules
    import_rules(ctx, "c07", {"stored-count-wins"})
    # the persisted item count is what a reopened map reports as len() and what bounds its iterators
    import_rules(ctx, "c05", {"count-writers", "count-step", "count-arm"})
    # a reopen finds the files the map was created with: one file per (map name, kind)
    import_rules(ctx, "c11", {"file-per-name-and-kind", "lookup-before-create"})
