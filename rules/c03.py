"""C03 - flush / sync_data / sync_all make all preceding updates durable."""
from .model import Tracer, short, const_val, Effects
from .roles import Roles, io_effects, WRITE_ATOMS, INNER, FILEDBINNER, role_effects
from .util import (calls_to, origins, where, region_dominated, result_fate, callee_name, reachable_fns, bool_switches, leaf_origins)
from . import flushpath as fp

EXPLANATION = (
    "Structural necessary conditions of C03 on MIR: (1) on every successful path of every function of the inner map "
    "type that may perform a write-class effect (a buffered chunk marked dirty or a set_len), the dirty flag that "
    "gates flush/sync is stored true (before or after the write), and a freshly opened map is not born 'clean' unless "
    "the open flushed; (2) each of flush/sync_all/sync_data, on its dirty arm, must-calls the same-named operation on "
    "every file-handle field of the struct (fields enumerated from the ADT), ?-propagates each result, clears the flag "
    "only in a block dominated by all of them, and the per-file chain reaches rabuf's flush and, for sync_*, "
    "File::sync_all / File::sync_data; (3) FileDb::sync_all/sync_data reach every registry of open maps and call the "
    "same-named map method, ?-propagating each result: each round of a registry loop invokes the callback or leaves by "
    "the not-dirty edge of an is_dirty() test, the only successful way out of a loop is the iterator's None, and an exit "
    "that does not walk the maps is guarded by a dirtiness scan of every registry; `Result::or` counts as swallowing.")
NOT_DECIDED = ("that the bytes written equal the logical state at that moment; that the OS honours fsync; the "
               "kill-right-after / directory-copy semantics; rabuf's write-back internals beyond reaching its flush.")
ASSUMPTIONS = ["a chunk's `dirty = true` store and File::set_len are the only ways buffered file content changes "
               "(derived from rabuf's extracted bodies)", "rabuf::RaBuf<T> is only instantiated with std::fs::File (checked)"]


def _check_own(ctx):
    prog = ctx.prog
    R = Roles(prog)
    io = io_effects(prog)

    # ------------------------------------------------------------------ clause 1
    deff = Effects(prog, lambda p, f, t: (), fp.dirty_label_stmt)
    # functions of the inner type (any impl) reachable from the public map API that may write
    roots = []
    for tr_name in ("abyssiniandb::DbXxxObjectSafe", "abyssiniandb::DbXxxBase"):
        roots += prog.find(self_adt=INNER, trait=tr_name)
    inner_fns = [f for f in reachable_fns(prog, roots).values() if f.impl_self_adt == INNER]
    # only API-level entry points are obliged (helpers are covered through their callers' paths)
    entries = [f for f in inner_fns if f.impl_trait in ("abyssiniandb::DbXxxObjectSafe", "abyssiniandb::DbXxxBase")]
    n_mut = 0
    for fn in sorted(entries, key=lambda f: f.id):
        wmay = io.may[fn.id] & WRITE_ATOMS
        if not wmay:
            continue
        n_mut += 1
        ctx.touch(fn, len(fn.blocks))
        wblocks = [b for b in range(len(fn.blocks)) if not fn.is_cleanup(b) and io.region_may(fn, [b]) & WRITE_ATOMS]
        dblocks = set(deff.sites(fn, "DIRTY_SET", must=True))
        bad = []
        for w in wblocks:
            if w in dblocks:
                continue
            dominated = any(fn.dominates(d, w) for d in dblocks)
            if dominated:
                continue
            # every successful continuation after w must pass a DIRTY_SET site
            succ = fn.normal_succs(w)
            if succ and fn.success_reach_return(succ, dblocks):
                bad.append(w)
        ctx.check(not bad, "dirty-raised", fn.name,
                  "%s can modify the files (%s) and return Ok without raising the dirty flag, so a following "
                  "flush/sync_all/sync_data is a no-op and the update is not made durable" % (fn.name, ",".join(sorted(wmay))),
                  where="; ".join(where(fn, b) for b in bad[:4]),
                  expected="a store `dirty = true` on every successful path that contains a write-class effect",
                  detail="%d write sites, %d dirty-set sites" % (len(wblocks), len(dblocks)))
        ctx.sample({"rule": "dirty-raised", "fn": fn.id, "write_sites": len(wblocks), "dirty_set_sites": sorted(dblocks)})
    ctx.floor("dirty-raised", "mutating API methods of the inner map type", n_mut, 2)

    # creation: a newly created map must not be born clean without a flush
    io_open = ctx.anchor("INNER_OPEN", lambda p: R.need("INNER_OPEN"))
    if io_open:
        ctx.touch(io_open)
        init_vals = []
        for b, blk in enumerate(io_open.blocks):
            for s in blk["stmts"]:
                if s["s"] == "assign" and s["rhs"]["rv"] == "agg" and s["rhs"].get("adt") == INNER:
                    flds = s["rhs"]["fields"]
                    from .fields import fname as _fname
                    if _fname(prog, "INNER.dirty") in flds:
                        op_ = s["rhs"]["ops"][flds.index(_fname(prog, "INNER.dirty"))]
                        v_ = const_val(op_)
                        if v_ is None and op_.get("k") in ("cp", "mv"):
                            from .util import const_origin
                            v_ = const_origin(origins(prog, io_open, op_, at=b))      # `let dirty = true; Self { dirty, .. }`
                        init_vals.append(v_)
        opens_write = bool(io.may[io_open.id] & WRITE_ATOMS)
        flushed = "BUF_FLUSH" in _flush_effects(prog).must.get(io_open.id, set())
        # the only forms that can be decided here: the flag starts as the constant `true`, or the open flushes what it
        # wrote.  A flag computed at run time ("were the files new?") is not accepted: whether it is true whenever the open
        # wrote a header depends on when the computation happens relative to the creation of the files.
        ok = bool(init_vals) and all(v is True for v in init_vals) or flushed or not opens_write
        ctx.check(ok, "dirty-raised", "open",
                  "opening a map can create and initialise its three files (write-class effects %s) but the handle starts with "
                  "dirty = false and the open does not flush: flush/sync on a created-never-updated map is a no-op, so the "
                  "directory at that moment does not hold a valid empty map" % sorted(io.may[io_open.id] & WRITE_ATOMS),
                  where=where(io_open), expected="initial dirty flag is the constant true, or a must-flush in the open")

    # ------------------------------------------------------------------ clause 2
    fields = fp.file_fields(prog)
    ctx.floor("sync-covers-files", "file-handle fields of the inner map struct", len(fields), 3)
    fl = _flush_effects(prog)
    n_methods = 0
    for m in fp.SYNC_METHODS:
        fn = fp.inner_base_method(prog, m)
        if not ctx.check(fn is not None, "sync-method", m, "inner map type has no unique DbXxxBase::%s" % m):
            continue
        n_methods += 1
        ctx.touch(fn, len(fn.blocks))
        sp = fp.dirty_split(prog, fn)
        if not ctx.check(len(sp) == 1, "dirty-split", m, "cannot find the unique test of the dirty flag in %s (found %d)" % (m, len(sp)), where=where(fn)):
            continue
        arm = sp[0]["true"]
        call_blocks = []
        for fname, fty in fields:
            tgt = prog.find(name=m, self_adt=fty, pred=lambda f: f.impl_trait is None)
            sites = []
            for t_fn in tgt:
                for b, t in calls_to(prog, fn, target_fn=t_fn):
                    o = origins(prog, fn, t["args"][0], at=b)
                    if o and all(x.kind == "param" and x.data == 1 and x.proj and x.proj[-1].endswith("." + fname) for x in o):
                        sites.append((b, t))
            # must: every successful path of the dirty arm passes one of the sites
            must = bool(sites) and not fn.success_reach_return(arm, [b for b, _ in sites])
            ctx.check(must, "sync-covers-files", "%s:%s" % (m, fname),
                      "%s() can return Ok on a dirty map without calling %s() on the `%s` file" % (m, m, fname),
                      where=where(fn, arm), expected="must-call of %s::%s on self.%s on the dirty arm" % (short(fty), m, fname))
            for b, t in sites:
                fate = result_fate(prog, fn, t["dest"]["l"]) if t["dest"]["l"] != 0 else {"returned"}
                ctx.check(fate <= {"try", "returned", "match-returned"}, "sync-result-propagated", "%s:%s" % (m, fname),
                          "the io::Result of %s() on the `%s` file is %s, not propagated" % (m, fname, sorted(fate)), where=where(fn, b))
                call_blocks.append(b)
        # the flag is cleared last
        stores = fp.dirty_stores(fn, prog)
        clears = [b for b, v in stores if v is False]
        ctx.check(len(clears) >= 1, "clear-exists", m, "%s never clears the dirty flag" % m, where=where(fn))
        for b in clears:
            # dominated by every file call AND by its success continuation (no error block between)
            ok = all(cb != b and fn.dominates(cb, b) for cb in call_blocks) and len(call_blocks) >= len(fields)
            ctx.check(ok, "clear-last", m,
                      "%s clears the dirty flag before all three files were flushed successfully: after an error the next flush would skip the remaining files" % m,
                      where=where(fn, b))
        others = [b for b, v in stores if v is not False]
        ctx.check(not others, "clear-last", m + ":other-stores", "%s stores something other than `false` to the dirty flag" % m,
                  where="; ".join(where(fn, b) for b in others))
        # chain agreement per file type
        need = {"flush": {"BUF_FLUSH"}, "sync_all": {"BUF_FLUSH", "OS_SYNC_ALL"}, "sync_data": {"BUF_FLUSH", "OS_SYNC_DATA"}}[m]
        for fname, fty in fields:
            for t_fn in prog.find(name=m, self_adt=fty, pred=lambda f: f.impl_trait is None):
                got = fl.must.get(t_fn.id, set())
                ctx.check(need <= got, "sync-chain", "%s:%s" % (m, fname),
                          "%s::%s does not always reach %s (reaches %s)" % (short(fty), m, sorted(need - got), sorted(got & {"BUF_FLUSH", "OS_SYNC_ALL", "OS_SYNC_DATA"})),
                          where=where(t_fn))
    ctx.floor("sync-method", "sync-family methods", n_methods, 3)

    # handle -> inner forwarding
    for m in fp.SYNC_METHODS:
        hs = prog.find(name=m, self_adt=fp.FILEDBMAP, trait=fp.BASE)
        inner = fp.inner_base_method(prog, m)
        if ctx.check(len(hs) == 1 and inner is not None, "handle-forwards", m + ":anchor", "FileDbMap has no unique DbXxxBase::%s" % m):
            h = hs[0]
            sites = calls_to(prog, h, target_fn=inner)
            must = bool(sites) and not h.success_reach_return(0, [b for b, _ in sites])
            ctx.check(must, "handle-forwards", m, "FileDbMap::%s does not always call the inner map's %s" % (m, m), where=where(h))

    # ------------------------------------------------------------------ clause 3
    _db_level(ctx, prog)


def _flush_effects(prog):
    cache = getattr(prog, "_flush_eff", None)
    if cache is not None:
        return cache
    flush_ids = {i for i in prog.trait_impls.get("std::io::Write", {}).get("flush", []) if i.startswith("<rabuf::RaBuf<")}

    def label_call(p, fn, t):
        out = set()
        tg, _ = p.targets(t, fn)
        for x in tg:
            if x.id in flush_ids:
                out.add("BUF_FLUSH")
        if not tg:
            c = t.get("callee")
            if c == "std::fs::File::sync_all":
                out.add("OS_SYNC_ALL")
            if c == "std::fs::File::sync_data":
                out.add("OS_SYNC_DATA")
        return out
    e = Effects(prog, label_call)
    prog._flush_eff = e
    return e


def _db_level(ctx, prog):
    adt = prog.adts.get(FILEDBINNER)
    regs = []
    if adt:
        for f in adt["variants"][0]["fields"]:
            if f["ty"].startswith("alloc::collections::btree::map::BTreeMap<") and "FileDbMap<" in f["ty"]:
                regs.append(f["name"])
    ctx.floor("db-sync-registries", "registries of open maps in FileDbInner", len(regs), 5)
    CB = ("core::ops::function::Fn::call", "core::ops::function::FnMut::call_mut", "core::ops::function::FnOnce::call_once")
    ap = prog.find(name="applay_all", self_adt=FILEDBINNER)
    if len(ap) != 1:
        # renamed: the one FileDbInner method that invokes a callback parameter
        ap = [f for f in prog.fns.values() if f.crate == "abyssiniandb" and f.kind in ("AssocFn", "Fn") and
              (f.impl_self_adt == FILEDBINNER or f.module == FILEDBINNER.rsplit("::", 1)[0]) and any((t.get("callee") or "") in CB for b, t in f.calls())]
    methods = {}
    for m in ("sync_all", "sync_data"):
        fs = prog.find(name=m, self_adt=FILEDBINNER)
        if ctx.check(len(fs) == 1, "db-sync-method", m + ":anchor", "FileDbInner::%s not found" % m):
            methods[m] = fs[0]
    # walkers: the shared walker with its callback sites, or - when the walk was written out / inlined into the two
    # methods - each method with its direct calls of the same-named per-map method
    walkers = []
    if len(ap) == 1:
        walkers.append((ap[0], [(b, t) for b, t in ap[0].calls() if (t.get("callee") or "") in CB], 1, None))
    else:
        for m, f in methods.items():
            sites = [(b, t) for b, t in f.calls() if (t.get("callee") or "") == "abyssiniandb::DbXxxBase::" + m and not f.is_cleanup(b)]
            others = sorted({callee_name(t) for b, t in f.calls() if (t.get("callee") or "").startswith("abyssiniandb::DbXxxBase::") and not f.is_cleanup(b)} - {m, "is_dirty"})
            if sites:
                walkers.append((f, sites, 0, m))
                ctx.check(not others, "db-sync-method", m, "FileDbInner::%s also applies %s to the maps" % (m, others), where=where(f))
    if not ctx.check(bool(walkers) and (len(ap) == 1 or len(walkers) == len(methods) == 2), "db-sync-registries", "anchor",
                     "cannot find the walk over the registered maps (neither a shared walker invoking a callback nor the two methods calling the per-map sync directly)"):
        return
    for w, cb_sites, argi, wm in walkers:
        ctx.touch(w, len(w.blocks))
        tag = "" if wm is None else wm + ":"
        covered = {}
        site_flds = {}
        for b, t in cb_sites:
            # the handle passed: tuple arg (&mut b,) ; b originates from getter(...).unwrap()
            os_ = origins(prog, w, t["args"][argi], at=b)
            flds = set()
            for o in os_:
                stack = [o]
                seen = 0
                while stack and seen < 50:
                    seen += 1
                    x = stack.pop()
                    if x.kind == "agg":
                        for op in x.data["ops"]:
                            stack.extend(origins(prog, w, op))
                    elif x.kind == "call":
                        tg, _ = prog.targets(x.data, w)
                        if tg and tg[0].impl_self_adt == FILEDBINNER:
                            flds |= _fields_read(tg[0])
                        elif x.data.get("args"):
                            stack.extend(origins(prog, w, x.data["args"][0], at=x.block))
                    elif x.kind == "param" and x.proj:
                        # the registry itself (`self.db_x_map.values()` instead of a key snapshot and the getter)
                        for p_ in x.proj:
                            if p_.startswith("f:") and p_.rsplit(".", 1)[0].endswith("FileDbInner"):
                                flds.add(p_.rsplit(".", 1)[1])
            fate = result_fate(prog, w, t["dest"]["l"]) if t["dest"]["l"] != 0 else {"returned"}
            site_flds[b] = flds
            for f in flds:
                covered.setdefault(f, []).append((b, fate))
        for r in regs:
            ctx.check(r in covered, "db-sync-registries", tag + r,
                      "FileDb::sync_all/sync_data never reach the maps registered in `%s`" % r, where=where(w))
            for b, fate in covered.get(r, []):
                ctx.check(fate <= {"try", "returned", "match-returned"}, "db-sync-result", tag + r,
                          "the result of syncing a map of registry `%s` is %s, not propagated" % (r, sorted(fate)), where=where(w, b))
        # every registered map is visited on every successful call: a loop round always invokes the callback, and the loop
        # body has no successful exit of its own (only the iterator's `None` leaves a loop)
        _visits_every_map(ctx, prog, w, cb_sites, site_flds, tag)
    # the two database-level methods pass a closure calling the same-named trait method
    for m, f in methods.items():
        ctx.touch(f)
        if len(ap) == 1:
            calls_ap = calls_to(prog, f, target_fn=ap[0])
            cl = prog.closures_of(f)
            names = set()
            for c in cl:
                for b, t in c.calls():
                    if t.get("callee", "").startswith("abyssiniandb::DbXxxBase::"):
                        names.add(callee_name(t))
            ctx.check(bool(calls_ap) and names == {m}, "db-sync-method", m,
                      "FileDbInner::%s applies %s to every map instead of exactly {%s}" % (m, sorted(names), m), where=where(f))
            walk_blocks = [b for b, _ in calls_ap]
        else:
            # the walk is in the method itself: "walking the maps" = reaching the first registry loop
            walk_blocks = [b for w, cb_sites, argi, wm in walkers if wm == m for b, t in w.calls()
                           if (t.get("callee") or "").endswith(("IntoIterator::into_iter", "::keys", "::values", "::iter")) and not w.is_cleanup(b)][:1]
        # ... on every successful path, except for a "no map is dirty" exit: the per-map sync does nothing for a clean map
        # (checked below), so such an exit changes nothing - provided the dirtiness scan looks at EVERY registry
        if walk_blocks and f.success_reach_return(0, walk_blocks):
            scanned = _dirty_scanned_registries(prog, f, regs)
            missing = sorted(set(regs) - scanned)
            ctx.check(_clean_sync_is_noop(prog) and not missing, "db-sync-method", m + ":always",
                      "FileDbInner::%s can return Ok without walking the maps, and the exit is not guarded by a dirtiness scan of every registry (not scanned: %s)"
                      % (m, ", ".join(missing) or "-"), where=where(f))
        else:
            ctx.check(bool(walk_blocks), "db-sync-method", m + ":always", "FileDbInner::%s does not walk the maps" % m, where=where(f))
        tops = prog.find(name=m, self_adt="abyssiniandb::filedb::FileDb")
        ok = len(tops) == 1 and bool(calls_to(prog, tops[0], target_fn=f)) and \
            not tops[0].success_reach_return(0, [b for b, _ in calls_to(prog, tops[0], target_fn=f)])
        ctx.check(ok, "db-sync-method", m + ":FileDb", "FileDb::%s does not always call FileDbInner::%s" % (m, m))


def _clean_sync_is_noop(prog):
    """The inner map's sync_all / sync_data touch the files only under `if self.is_dirty()`."""
    cache = prog.__dict__.setdefault("_clean_sync_noop", {})
    if "v" in cache:
        return cache["v"]
    ok = True
    n = 0
    for m in ("sync_all", "sync_data"):
        for f in prog.find(name=m, self_adt=INNER):
            if not (f.impl_trait or "").endswith("DbXxxBase"):
                continue
            n += 1
            dirty_true = [s_["true"] for s_ in bool_switches(prog, f)
                          if s_["cond"] and all(o.kind == "call" and (o.data.get("callee") or "").endswith("::is_dirty") for o in s_["cond"])]
            for b, t in f.calls():
                if f.is_cleanup(b) or not (t.get("callee") or "").startswith("abyssiniandb::") or (t.get("callee") or "").endswith("::is_dirty"):
                    continue
                if not any(f.dominates(d, b) for d in dirty_true):
                    ok = False
    cache["v"] = ok and n == 2
    return cache["v"]


def _dirty_scanned_registries(prog, f, regs):
    """Registries whose handles are asked `is_dirty()` in f: `self.<reg>.values().any(|m| m.is_dirty())` or a loop."""
    out = set()
    bodies = [f] + list(prog.closures_of(f))
    asks = any((t.get("callee") or "").endswith("::is_dirty") for g in bodies for b, t in g.calls())
    if not asks:
        return out
    for b, t in f.calls():
        c = t.get("callee") or ""
        if f.is_cleanup(b) or "btree::map::BTreeMap" not in c or c.rsplit("::", 1)[-1] not in ("values", "iter", "values_mut", "iter_mut"):
            continue
        for o in leaf_origins(prog, f, t["args"][0], at=b):
            for p_ in o.proj:
                if p_.startswith("f:") and p_.rsplit(".", 1)[-1] in regs:
                    # the iterator built here must reach an is_dirty question: directly in f, or in the closure given to any/all/find
                    out.add(p_.rsplit(".", 1)[-1])
    return out


def _visits_every_map(ctx, prog, ap, cb_sites, site_flds, tag=""):
    from .util import enum_switches
    sw = enum_switches(prog, ap)
    n = 0
    for b, t in cb_sites:
        cyc = {x for x in ap.reachable_ok(ap.normal_succs(b)) if b in ap.reachable_ok(ap.normal_succs(x))} | {b}
        if b not in ap.reachable_ok(ap.normal_succs(b)):
            continue        # not in a loop (a single map): nothing to skip
        heads = [(hb, ht) for hb, ht in ap.calls() if hb in cyc and (ht.get("callee") or "").endswith("Iterator::next")]
        exits = [s_ for s_ in sw if s_["block"] in cyc and s_["src"] and all(o.kind == "call" and o.block in {hb for hb, _ in heads} for o in s_["src"])]
        inst = tag + ("+".join(sorted(site_flds.get(b) or ())) or "loop")
        if not ctx.check(len(heads) == 1 and len(exits) == 1, "db-sync-visits-every-map", inst + ":shape",
                         "cannot find the single iterator step / end-of-iteration test of the loop that syncs the maps of one registry", where=where(ap, b)):
            continue
        n += 1
        hb = heads[0][0]
        ex = exits[0]
        # a round that comes back to the iterator step has invoked the callback - or has found the map clean (the
        # not-dirty edge of an `is_dirty()` test), for which the per-map sync does nothing anyway
        clean_edges = set()
        if _clean_sync_is_noop(prog):
            for s_ in bool_switches(prog, ap):
                if s_["block"] in cyc and s_["cond"] and all(o.kind == "call" and (o.data.get("callee") or "").endswith("::is_dirty") for o in s_["cond"]):
                    clean_edges.add(s_["false"])
        ctx.check(hb not in ap.reachable_ok(ap.normal_succs(hb), avoid={b} | clean_edges), "db-sync-visits-every-map", inst + ":every-round",
                  "a map can be skipped: the loop can go round without invoking the sync callback", where=where(ap, hb))
        # the only successful way out of the loop is the iterator's None
        none_tgts = {tgt for v, tgt in ex["targets"].items() if v == 0} | ({ex["otherwise"]} if 0 not in ex["targets"] and ex["otherwise"] is not None else set())
        bad = []
        for x in cyc:
            for y in ap.normal_succs(x):
                if y in cyc or (x == ex["block"] and y in none_tgts):
                    continue
                if ap.success_reach_return(y, ()):
                    bad.append((x, y))
        ctx.check(not bad, "db-sync-visits-every-map", inst + ":no-early-exit",
                  "the walk over the registered maps can end with Ok before every map was synced (exit from inside the loop body)",
                  where=where(ap, bad[0][0]) if bad else where(ap))
    ctx.floor("db-sync-visits-every-map", "registry loops checked", n, 4)


def _fields_read(fn):
    out = set()
    for blk in fn.blocks:
        for s in blk["stmts"]:
            if s["s"] == "assign":
                r = s["rhs"]
                pls = []
                if r["rv"] in ("ref", "discr"):
                    pls.append(r["pl"])
                elif r["rv"] == "use" and r["a"].get("k") in ("cp", "mv"):
                    pls.append(r["a"]["pl"])
                for p in pls:
                    for e in p["p"]:
                        if e.startswith("f:" + FILEDBINNER + "."):
                            out.add(e.rsplit(".", 1)[1])
    return out


def check(ctx):
    _check_own(ctx)
    from .engine import import_rules
    # the database-level sync walks the registries: it reaches the handle the caller holds only if a name is registered once
    import_rules(ctx, "c11", {"registry-column", "lookup-before-create", "registry-grow-only"})
    # only flush / sync lower the dirty flag: a read-only call (read_fill_buffer, a getter, an iterator) that stores to it
    # turns the next sync into a no-op although updates are pending
    import_rules(ctx, "c15", {"read-only-no-dirty-store"})
