"""Shared helpers for rule modules."""
from .model import Tracer, const_val, short, line_of, TRY_BRANCH


def callee_name(t):
    return (t.get("callee") or "").rsplit("::", 1)[-1]


def calls_to(prog, fn, target_fn=None, callee=None, pred=None, with_asserts=False):
    """(block, term) of call sites in fn resolving to target_fn (Fn) or with callee path == callee.
    Calls made only to evaluate a `debug_assert!` (absent from release builds) are not listed unless asked for."""
    out = []
    skip = set() if with_asserts else assert_only_blocks(fn)
    for b, t in fn.calls():
        if b in skip:
            continue
        if target_fn is not None:
            tg, _ = prog.targets(t, fn)
            if not any(x.id == target_fn.id for x in tg):
                continue
        if callee is not None:
            if isinstance(callee, (tuple, list, set)):
                if t.get("callee") not in callee:
                    continue
            elif t.get("callee") != callee:
                continue
        if pred is not None and not pred(t):
            continue
        out.append((b, t))
    return out


_TRACERS = {}


def tracer(prog, fn):
    k = (id(prog), fn.id)
    t = _TRACERS.get(k)
    if t is None or t.fn is not fn:     # the body was rewritten by the normalisation since (Program.replace_fn)
        t = Tracer(prog, fn)
        _TRACERS[k] = t
    return t


def origins(prog, fn, op, at=None):
    """Origins of an operand; with `at` = block of the use, only definitions that can reach that block."""
    return tracer(prog, fn).operand(op, at=at)


def origin_calls(prog, fn, op):
    """Set of callee paths the operand's value may originate from (call roots only)."""
    return {o.data.get("callee") for o in origins(prog, fn, op) if o.kind == "call"}


def all_call_origin(prog, fn, op, target_fn, proj_has=None):
    """True iff every origin of op is the result of a call resolving to target_fn."""
    os_ = origins(prog, fn, op)
    if not os_:
        return False
    for o in os_:
        if o.kind != "call":
            return False
        tg, _ = prog.targets(o.data, fn)
        if not any(x.id == target_fn.id for x in tg):
            return False
        if proj_has is not None and not any(proj_has in p for p in o.proj):
            return False
    return True


def bool_switches(prog, fn):
    """For each `switch` on a bool: dict(block, cond_origins, true_target, false_target, negated)."""
    out = []
    tr = Tracer(prog, fn)
    for b, blk in enumerate(fn.blocks):
        t = blk["term"]
        if blk["cleanup"] or not t or t["t"] != "switch" or t["dty"] != "bool":
            continue
        tgts = {v: bb for v, bb in t["targets"]}
        if "0" in tgts:
            false_t, true_t = tgts["0"], t["otherwise"]
        elif "1" in tgts:
            true_t, false_t = tgts["1"], t["otherwise"]
        else:
            continue
        os_ = tr.operand(t["discr"])
        neg = False
        # strip Not
        while len(os_) == 1 and os_[0].kind == "un" and os_[0].data["op"] == "Not":
            neg = not neg
            os_ = tr.operand(os_[0].data["a"])
        if neg:
            true_t, false_t = false_t, true_t
        al = _assert_arm(fn, true_t) or _assert_arm(fn, false_t)
        out.append({"block": b, "cond": os_, "true": true_t, "false": false_t, "assert_like": bool(al), "debug_assert": al == "debug"})
    return out


ASSERTION_MACROS = {"assert", "assert_eq", "assert_ne", "debug_assert", "debug_assert_eq", "debug_assert_ne"}


def _assert_arm(fn, b, depth=0):
    """Does this branch target do nothing but fail an `assert!` / `debug_assert!` (format the message, panic)?"""
    seen = set()
    cur = b
    for _ in range(12):
        if cur in seen or cur is None:
            return False
        seen.add(cur)
        blk = fn.blocks[cur]
        t = blk["term"]
        if t is None:
            return False
        if t["t"] == "call":
            if not (set(macro_names(t)) & ASSERTION_MACROS):
                return False
            if t["target"] is None:
                return "debug" if any(m.startswith("debug_assert") for m in macro_names(t)) else "assert"
            cur = t["target"]
        elif t["t"] == "goto":
            cur = t["target"]
        else:
            return False
    return False


def find_bool_split(prog, fn, cond_pred, with_asserts=False):
    """The bool switches whose condition origins satisfy cond_pred(origin).  Tests that only guard an assertion
    (`debug_assert!(!self.is_dirty())`) are not control flow of the algorithm and are left out."""
    hits = []
    for sw in bool_switches(prog, fn):
        if sw.get("assert_like") and not with_asserts:
            continue
        if len(sw["cond"]) >= 1 and all(cond_pred(o) for o in sw["cond"]):
            hits.append(sw)
    return hits


_IDENT_TAILS = ("::new", "::as_value", "::into", "::from", "::clone", "::deref", "::as_ref", "::borrow")


def _is_zero_operand(prog, fn, op, at, depth=0):
    """Is this operand the constant zero, possibly wrapped (`T::new(0)`, `0.into()`, a reference to it)?"""
    if op.get("k") == "c":
        return const_val(op) == 0 and not isinstance(const_val(op), bool)
    os_ = origins(prog, fn, op, at=at)
    if not os_ or depth > 4:
        return False
    for o in os_:
        if o.kind == "const" and o.data == 0 and not isinstance(o.data, bool) and not o.proj:
            continue
        if o.kind == "call" and (o.data.get("callee") or "").endswith(_IDENT_TAILS + ("::default",)) and not o.proj:
            if (o.data.get("callee") or "").endswith("::default") and not o.data.get("args"):
                continue
            if o.data.get("args") and _is_zero_operand(prog, fn, o.data["args"][0], o.block, depth + 1):
                continue
        return False
    return True


def value_origins(prog, fn, op, at, depth=0):
    """origins of an operand, looking through value-preserving wrappers (`as_value()`, `T::new(x)`, into/from, clone)."""
    out = []
    for o in origins(prog, fn, op, at=at):
        if o.kind == "call" and not o.proj and depth < 5 and o.data.get("args") and len(o.data["args"]) == 1 \
                and (o.data.get("callee") or "").endswith(_IDENT_TAILS):
            out.extend(value_origins(prog, fn, o.data["args"][0], o.block, depth + 1))
        else:
            out.append(o)
    return out


def zero_splits(prog, fn, operand_pred):
    """Branches that test a value against zero, however spelled: `x.is_zero()`, `x == 0`, `x != T::new(0)`,
    `x.as_value() > 0`, `0 == x`, `!x.is_zero()` ...  operand_pred(list of origins of x) selects the value.
    Returns [{block, true: target when x is zero, false: target when x is not zero}]."""
    out = []
    CMP = {"core::cmp::PartialEq::eq": "Eq", "core::cmp::PartialEq::ne": "Ne", "core::cmp::PartialOrd::gt": "Gt", "core::cmp::PartialOrd::lt": "Lt",
           "core::cmp::PartialOrd::ge": "Ge", "core::cmp::PartialOrd::le": "Le"}
    for sw in bool_switches(prog, fn):
        if len(sw["cond"]) != 1 or sw.get("assert_like"):
            continue
        o = sw["cond"][0]
        cand = None          # (operand, at-block, zero_on_true)
        if o.kind == "call" and (o.data.get("callee") or "").rsplit("::", 1)[-1] in ("is_zero", "_is_zero") and o.data.get("args"):
            cand = (o.data["args"][0], o.block, True)
        else:
            op = a = b = None
            if o.kind == "bin" and o.data["op"] in ("Eq", "Ne", "Gt", "Lt", "Ge", "Le"):
                op, a, b = o.data["op"], o.data["a"], o.data["b"]
            elif o.kind == "call" and o.data.get("callee") in CMP and len(o.data.get("args", [])) == 2:
                op, a, b = CMP[o.data["callee"]], o.data["args"][0], o.data["args"][1]
            if op:
                za, zb = _is_zero_operand(prog, fn, a, o.block), _is_zero_operand(prog, fn, b, o.block)
                if zb and not za:
                    x = a
                    zero_on_true = {"Eq": True, "Ne": False, "Gt": False, "Le": True}.get(op)       # x == 0, x != 0, x > 0, x <= 0
                elif za and not zb:
                    x = b
                    zero_on_true = {"Eq": True, "Ne": False, "Lt": False, "Ge": True}.get(op)       # 0 == x, 0 != x, 0 < x, 0 >= x
                else:
                    x, zero_on_true = None, None
                if x is not None and zero_on_true is not None:
                    cand = (x, o.block, zero_on_true)
        if cand is None:
            continue
        x, at, zero_on_true = cand
        xs = value_origins(prog, fn, x, at)
        if xs and operand_pred(xs):
            out.append({"block": sw["block"], "cond": sw["cond"], "true": sw["true"] if zero_on_true else sw["false"],
                        "false": sw["false"] if zero_on_true else sw["true"]})
    # `match x.as_value() { 0 => .., _ => .. }`
    for b, blk in enumerate(fn.blocks):
        t = blk["term"]
        if blk["cleanup"] or not t or t["t"] != "switch" or t["dty"] in ("bool", "isize") or t["otherwise"] is None:
            continue
        if len(t["targets"]) == 1 and t["targets"][0][0] == "0" and t["discr"].get("k") in ("cp", "mv"):
            xs = value_origins(prog, fn, t["discr"], b)
            if xs and operand_pred(xs):
                out.append({"block": b, "cond": [], "true": t["targets"][0][1], "false": t["otherwise"]})
    return out


def enum_switches(prog, fn):
    """Switches on discriminant(place): dict(block, place_origins, targets{variant index->bb}, otherwise)."""
    out = []
    tr = Tracer(prog, fn)
    for b, blk in enumerate(fn.blocks):
        t = blk["term"]
        if blk["cleanup"] or not t or t["t"] != "switch" or t["dty"] == "bool":
            continue
        os_ = tr.operand(t["discr"])
        if len(os_) == 1 and os_[0].kind == "discr":
            pl = os_[0].data["pl"]
            src = tr.place(pl)
            out.append({"block": b, "place": pl, "src": src,
                        "targets": {int(v): bb for v, bb in t["targets"]}, "otherwise": t["otherwise"]})
    return out


def diverges(fn, start):
    """No successful return is reachable from `start`."""
    return not fn.success_reach_return(start, ())


def region_dominated(fn, entry):
    """Blocks dominated by `entry` (normal edges)."""
    dom = fn.dominators()
    return {b for b, ds in dom.items() if entry in ds}


def where(fn, b=None):
    if b is None:
        return "%s (%s)" % (fn.id, fn.span)
    return "%s bb%d (%s)" % (fn.id, b, line_of(fn, b))


def is_call_to(prog, fn, o, target_fn):
    if o.kind != "call":
        return False
    tg, _ = prog.targets(o.data, fn)
    return any(x.id == target_fn.id for x in tg)


def const_origin(os_):
    """If all origins are the same constant, return it else None."""
    vals = set()
    for o in os_:
        if o.kind != "const":
            return None
        vals.add(o.data if not isinstance(o.data, list) else tuple(o.data))
    if len(vals) == 1:
        return next(iter(vals))
    return None


def macro_names(t):
    return [m.split(":", 1)[1] if ":" in m else m for m in t.get("macros", [])]


# ---------------------------------------------------------------------------
# K3: what happens to an io::Result produced at a call site
# ---------------------------------------------------------------------------
IO_RESULT_RE = "core::result::Result<"
PASS_THROUGH = {"map", "map_err", "and_then", "or_else", "and", "inspect", "inspect_err"}
# `a.or(b)` is Ok as soon as ONE of the two is: the other one's error is lost (both operand positions)
SWALLOW = {"ok", "err", "is_ok", "is_err", "unwrap_or", "unwrap_or_default", "unwrap_or_else", "is_ok_and", "is_err_and", "or"}
UNWRAP = {"unwrap", "expect", "unwrap_unchecked", "expect_err", "unwrap_err"}


def is_io_result(ty):
    return ty.startswith("core::result::Result<") and ty.rstrip(">").endswith("std::io::error::Error")


def _uses_local(op, l):
    return op.get("k") in ("cp", "mv") and op["pl"]["l"] == l


def _rv_operands(rv):
    k = rv["rv"]
    if k in ("use", "cast", "un", "repeat"):
        return [rv["a"]]
    if k == "bin":
        return [rv["a"], rv["b"]]
    if k == "agg":
        return list(rv["ops"])
    if k in ("ref", "rawptr", "discr"):
        return [{"k": "cp", "pl": rv["pl"]}]
    return []


def result_fate(prog, fn, local, _seen=None):
    """Set of fates of the Result held in `local`: try | returned | unwrap | swallowed | dropped | passed:<callee> |
    match-returned | match-swallowed."""
    seen = _seen or set()
    if local in seen:
        return set()
    seen = seen | {local}
    if local == 0:
        return {"returned"}
    fates = set()
    matched = False
    rewrapped_ok = False
    err_payload_moved = []
    for b, blk in enumerate(fn.blocks):
        if blk["cleanup"]:
            continue
        for s in blk["stmts"]:
            if s["s"] != "assign":
                continue
            rv = s["rhs"]
            for op in _rv_operands(rv):
                if not _uses_local(op, local):
                    continue
                proj = op["pl"]["p"]
                if rv["rv"] == "discr":
                    matched = True
                elif rv["rv"] in ("use", "cast") and not proj:
                    if _killed_before_return(fn, s["lhs"]["l"], b):
                        fates.add("overwritten")
                    elif s["lhs"]["l"] == 0 and not s["lhs"]["p"]:
                        fates.add("returned")
                    else:
                        fates |= result_fate(prog, fn, s["lhs"]["l"], seen)
                elif rv["rv"] == "ref" and not proj:
                    sub = result_fate(prog, fn, s["lhs"]["l"], seen)
                    if sub == {"dropped"} and not _local_used(fn, s["lhs"]["l"]):
                        pass        # a borrow nobody reads (the fake borrow of a guarded `match`): says nothing about the Result
                    else:
                        fates |= sub
                elif proj and any(p == "dc:Err" for p in proj):
                    if rv["rv"] == "agg" and rv.get("adt") == "core::result::Result" and rv.get("variant") == "Err" and not s["lhs"]["p"]:
                        # re-wrapped at once: `Err(e) => Err(e)` (what `map` / `and_then` stand for): the new Result's fate counts
                        sub = result_fate(prog, fn, s["lhs"]["l"], seen)
                        if sub and sub <= {"returned", "try", "match-returned"}:
                            rewrapped_ok = True
                        else:
                            fates |= (sub - {"returned", "try", "match-returned"})
                    else:
                        err_payload_moved.append(s["lhs"]["l"])
                elif proj and any(p == "dc:Ok" for p in proj):
                    pass
                elif rv["rv"] == "agg":
                    # wrapped into another value (tuple / struct): follow
                    fates |= result_fate(prog, fn, s["lhs"]["l"], seen)
        t = blk["term"]
        if t and t["t"] == "call":
            for i, a in enumerate(t["args"]):
                if not _uses_local(a, local) or a["pl"]["p"]:
                    continue
                cn = callee_name(t)
                callee = t.get("callee") or ""
                if callee == TRY_BRANCH:
                    fates.add("try")
                elif callee.startswith("core::result::Result") and cn in PASS_THROUGH:
                    fates |= result_fate(prog, fn, t["dest"]["l"], seen)
                elif callee.startswith("core::result::Result") and cn in SWALLOW:
                    fates.add("swallowed")
                elif callee.startswith("core::result::Result") and cn in UNWRAP:
                    fates.add("unwrap")
                elif callee in ("core::mem::drop",):
                    fates.add("dropped")
                else:
                    fates.add("passed:" + callee)
    if matched:
        ret = rewrapped_ok
        for l in err_payload_moved:
            if _flows_to_err_return(prog, fn, l, set()):
                ret = True
        fates.add("match-returned" if ret else "match-swallowed")
    if not fates:
        fates.add("dropped")
    return fates


def _local_used(fn, l):
    for blk in fn.blocks:
        if blk["cleanup"]:
            continue
        for st in blk["stmts"]:
            if st["s"] == "assign":
                for op in _rv_operands(st["rhs"]):
                    if _uses_local(op, l):
                        return True
                if st["lhs"]["l"] == l and st["lhs"]["p"]:
                    return True
        t = blk["term"]
        if t and t["t"] == "call" and any(_uses_local(a, l) for a in t["args"]):
            return True
        if t and t["t"] == "switch" and _uses_local(t["discr"], l):
            return True
    return False


def _killed_before_return(fn, local, def_block):
    """The value stored into `local` at def_block can be overwritten by another (or the same, in a loop) definition of
    that local before the function returns."""
    if not fn.local_name(local) and local != 0:
        return False            # compiler temporaries are single-use
    after = fn.reachable(fn.normal_succs(def_block))
    for (b, kind, payload) in fn.defs().get(local, []):
        lhs = payload["lhs"] if kind == "assign" else payload["dest"]
        if lhs["p"]:
            continue
        if b in after and (b != def_block or True):
            # is a return still reachable from that other definition?  (always, unless it diverges)
            if any(r in fn.reachable(b) for r in fn.return_blocks()):
                return True
    return False


def _flows_to_err_return(prog, fn, local, seen):
    if local in seen:
        return False
    seen.add(local)
    for b, blk in enumerate(fn.blocks):
        if blk["cleanup"]:
            continue
        for s in blk["stmts"]:
            if s["s"] != "assign":
                continue
            rv = s["rhs"]
            for op in _rv_operands(rv):
                if _uses_local(op, local):
                    if rv["rv"] == "agg" and rv.get("adt") == "core::result::Result" and rv.get("variant") == "Err":
                        if s["lhs"]["l"] == 0 or _flows_to_ret(prog, fn, s["lhs"]["l"], set()):
                            return True
                    elif rv["rv"] in ("use", "cast"):
                        if _flows_to_err_return(prog, fn, s["lhs"]["l"], seen):
                            return True
    return False


def _flows_to_ret(prog, fn, local, seen):
    if local == 0:
        return True
    if local in seen:
        return False
    seen.add(local)
    for blk in fn.blocks:
        if blk["cleanup"]:
            continue
        for s in blk["stmts"]:
            if s["s"] == "assign" and s["rhs"]["rv"] == "use" and _uses_local(s["rhs"]["a"], local):
                if _flows_to_ret(prog, fn, s["lhs"]["l"], seen):
                    return True
    return False


def io_result_sites(prog, fn):
    """(block, term, fates) for every call in fn whose destination type is io::Result<_>."""
    out = []
    for b, t in fn.calls():
        d = t["dest"]
        if d["p"]:
            continue
        ty = fn.local_ty(d["l"])
        if not is_io_result(ty):
            continue
        if (t.get("callee") or "") in ("core::ops::try_trait::FromResidual::from_residual",):
            continue
        if _killed_before_return(fn, d["l"], b):
            out.append((b, t, {"overwritten"}))
        elif d["l"] == 0:
            out.append((b, t, {"returned"}))
        else:
            out.append((b, t, result_fate(prog, fn, d["l"])))
    return out


def reachable_fns(prog, roots, crates=("abyssiniandb",), stop=()):
    """Functions (restricted to `crates`) reachable from roots over resolved calls (closures included)."""
    seen = {}
    stack = list(roots)
    while stack:
        fn = stack.pop()
        if fn.id in seen or fn.crate not in crates or fn.id in stop:
            continue
        seen[fn.id] = fn
        for b, t in fn.calls():
            for x in prog.targets(t, fn)[0]:
                if x.id not in seen:
                    stack.append(x)
        for c in prog.closures_of(fn):
            stack.append(c)
        # statics / thread-locals / consts mentioned by the body: their initialiser functions run on first use
        for item in _items_mentioned(fn):
            for g in prog.fns.values():
                if g.id.startswith(item + "::") and g.id not in seen:
                    stack.append(g)
    return seen


def _items_mentioned(fn):
    out = set()

    def op(o):
        if isinstance(o, dict) and o.get("k") == "c" and o.get("cdef"):
            out.add(o["cdef"])
    for blk in fn.blocks:
        if blk["cleanup"]:
            continue
        for s in blk["stmts"]:
            if s["s"] == "assign":
                r = s["rhs"]
                if r["rv"] == "tls":
                    out.add(r.get("def"))
                for x in _rv_operands(r):
                    op(x)
        t = blk["term"]
        if t and t["t"] == "call":
            for a in t["args"]:
                op(a)
            c = t.get("callee") or ""
            # `KEY.with(..)` on a thread_local!: the LocalKey constant is the receiver
            for a in t["args"]:
                if isinstance(a, dict) and a.get("k") == "c" and a.get("cdef"):
                    out.add(a["cdef"])
    out.discard(None)
    return out


# ---------------------------------------------------------------------------
# constant-bool aware reachability (path sensitivity for `let flg = match .. {A => true, _ => false}; if flg`)
# ---------------------------------------------------------------------------
def _flag_locals(fn):
    """Locals all of whose definitions are `const bool` or a copy of another flag local."""
    defs = fn.defs()
    cand = set()
    for l, ds in defs.items():
        ok = True
        for (b, kind, payload) in ds:
            if kind != "assign" or payload["lhs"]["p"]:
                ok = False
                break
            rv = payload["rhs"]
            if rv["rv"] != "use":
                ok = False
                break
            a = rv["a"]
            if a.get("k") == "c" and isinstance(const_val(a), bool):
                continue
            if a.get("k") in ("cp", "mv") and not a["pl"]["p"]:
                continue
            ok = False
            break
        if ok and fn.local_ty(l) == "bool" and l > fn.arg_count:
            cand.add(l)
    changed = True
    while changed:
        changed = False
        for l in list(cand):
            for (b, kind, payload) in defs[l]:
                a = payload["rhs"]["a"]
                if a.get("k") in ("cp", "mv") and a["pl"]["l"] not in cand:
                    cand.discard(l)
                    changed = True
                    break
    return cand


def flag_reach(fn, avoid=(), start=0):
    """Blocks reachable from `start` not entering `avoid`, following only feasible edges of switches on flag locals."""
    flags = _flag_locals(fn)
    avoid = set(avoid)
    init = (start, ())
    seen = {init}
    stack = [init]
    reached = set()
    while stack:
        b, st = stack.pop()
        if b in avoid:
            continue
        reached.add(b)
        env = dict(st)
        blk = fn.blocks[b]
        for s in blk["stmts"]:
            if s["s"] == "assign" and not s["lhs"]["p"] and s["lhs"]["l"] in flags:
                a = s["rhs"]["a"]
                if a.get("k") == "c":
                    env[s["lhs"]["l"]] = const_val(a)
                else:
                    v = env.get(a["pl"]["l"])
                    if v is None:
                        env.pop(s["lhs"]["l"], None)
                    else:
                        env[s["lhs"]["l"]] = v
        t = blk["term"]
        succs = fn.normal_succs(b)
        if t and t["t"] == "switch" and t["dty"] == "bool" and t["discr"].get("k") in ("cp", "mv") \
                and not t["discr"]["pl"]["p"] and t["discr"]["pl"]["l"] in flags:
            v = env.get(t["discr"]["pl"]["l"])
            if v is not None:
                tg = {val: bb for val, bb in t["targets"]}
                want = "1" if v else "0"
                succs = [tg[want]] if want in tg else [t["otherwise"]]
        st2 = tuple(sorted(env.items()))
        for s_ in succs:
            k = (s_, st2)
            if k not in seen:
                seen.add(k)
                stack.append(k)
    return reached


def in_cycle(fn, b):
    """Is block b on a CFG cycle (i.e. inside a loop)?"""
    return b in fn.reachable(fn.normal_succs(b))


CONV_CALLEES = {"core::convert::Into::into", "core::convert::From::from", "core::convert::TryInto::try_into",
                "core::convert::TryFrom::try_from"}


def chase(prog, fn, os_, through=CONV_CALLEES, depth=6):
    """Replace call-origins whose callee is a pure conversion by the origins of their first argument."""
    out = []
    for o in os_:
        if o.kind == "call" and o.data.get("callee") in through and o.data.get("args") and depth > 0:
            out.extend(chase(prog, fn, origins(prog, fn, o.data["args"][0]), through, depth - 1))
        else:
            out.append(o)
    return out


def lookup_split(prog, fn, lookup_fn):
    """The switch on the discriminant of `LOOKUP(..)?` in fn: (block, some_entry, none_entry) or None."""
    hits = []
    for sw in enum_switches(prog, fn):
        src = sw["src"]
        if src and all(is_call_to(prog, fn, o, lookup_fn) and o.proj[:1] == ("?ok",) and len(o.proj) == 1 for o in src):
            some = sw["targets"].get(1)
            none = sw["targets"].get(0, sw["otherwise"])
            if some is None:
                some = sw["otherwise"]
            hits.append((sw["block"], some, none))
    return hits


def ret_agg_blocks(fn, adt, variant):
    """Blocks that assign an aggregate adt::variant (anywhere; used to find `Some(..)`, `Ok(..)` constructions)."""
    out = []
    for b, blk in enumerate(fn.blocks):
        if blk["cleanup"]:
            continue
        for s in blk["stmts"]:
            if s["s"] == "assign" and s["rhs"]["rv"] == "agg" and s["rhs"].get("adt") == adt and s["rhs"].get("variant") == variant:
                out.append((b, s))
    return out


def leaf_origins(prog, fn, op, at=None, depth=0, _seen=None, terminal_only=False, opaque_index=False):
    """Transitive data origins of an operand: expands arithmetic, casts and identity/conversion calls down to
    params / constants / other call results."""
    out = []
    seen = _seen if _seen is not None else set()
    for o in origins(prog, fn, op, at=at):
        k = (o.kind, o.block, repr(o.data)[:80], o.proj)
        if k in seen or depth > 14:
            continue
        seen.add(k)
        if o.kind == "bin":
            out += leaf_origins(prog, fn, o.data["a"], o.block, depth + 1, seen, terminal_only, opaque_index)
            out += leaf_origins(prog, fn, o.data["b"], o.block, depth + 1, seen, terminal_only, opaque_index)
        elif o.kind == "un":
            out += leaf_origins(prog, fn, o.data["a"], o.block, depth + 1, seen, terminal_only, opaque_index)
        elif o.kind == "agg" and not (terminal_only and o.data.get("agg") == "array"):
            for x in o.data["ops"]:
                out += leaf_origins(prog, fn, x, o.block, depth + 1, seen, terminal_only, opaque_index)
        elif o.kind == "call" and opaque_index and (o.data.get("callee") or "").startswith(("core::ops::index::", "core::slice::")):
            out.append(o)       # slicing / indexing changes the value: do not look through it
        elif o.kind == "call" and o.data.get("args") and (
                (o.data.get("callee") or "") in CONV_CALLEES
                or (o.data.get("callee") or "").startswith(("core::result::Result", "core::option::Option", "core::num::", "core::ops::arith::",
                                                            "core::ops::index::", "core::slice::", "core::array::"))
                or (o.data.get("callee") or "").startswith("abyssiniandb::filedb::inner::semtype::")):
            if not terminal_only:
                out.append(o)
            args = o.data["args"]
            if (o.data.get("callee") or "").startswith("core::ops::index::"):
                args = args[:1]         # the indexed object, not the index
            for x in args:
                out += leaf_origins(prog, fn, x, o.block, depth + 1, seen, terminal_only, opaque_index)
        else:
            out.append(o)
    return out


def field_reads(prog, field_suffix, crate="abyssiniandb"):
    """[(fn, block, place)] for every read (rvalue use / ref / discriminant / call arg) of a place whose projection
    contains a field element ending with field_suffix."""
    out = []
    for fn in prog.fns.values():
        if fn.crate != crate:
            continue
        for b, blk in enumerate(fn.blocks):
            if blk["cleanup"]:
                continue
            for s in blk["stmts"]:
                if s["s"] != "assign":
                    continue
                for op in _rv_operands(s["rhs"]):
                    if op.get("k") in ("cp", "mv") and any(e.startswith("f:") and e.endswith(field_suffix) for e in op["pl"]["p"]):
                        out.append((fn, b, op["pl"]))
            t = blk["term"]
            if t and t["t"] == "call":
                for op in t["args"]:
                    if op.get("k") in ("cp", "mv") and any(e.startswith("f:") and e.endswith(field_suffix) for e in op["pl"]["p"]):
                        out.append((fn, b, op["pl"]))
            if t and t["t"] == "switch" and t["discr"].get("k") in ("cp", "mv"):
                if any(e.startswith("f:") and e.endswith(field_suffix) for e in t["discr"]["pl"]["p"]):
                    out.append((fn, b, t["discr"]["pl"]))
    return out


def field_stores(prog, field_suffix, crate="abyssiniandb"):
    """[(fn, block, stmt)] for every assignment whose lhs ends in the given field, plus aggregate initialisers."""
    out = []
    for fn in prog.fns.values():
        if fn.crate != crate:
            continue
        for b, blk in enumerate(fn.blocks):
            if blk["cleanup"]:
                continue
            for s in blk["stmts"]:
                if s["s"] == "assign" and s["lhs"]["p"] and s["lhs"]["p"][-1].startswith("f:") and s["lhs"]["p"][-1].endswith(field_suffix):
                    out.append((fn, b, s))
    return out


def stored_value_sources(prog, fn, stop_module, depth=0, op=None, at=None):
    """Where the Ok value a function returns comes from, looking through pass-through crate calls (the callee's result
    returned unchanged, `?`/`Ok(..)`/`map(Ctor)` aside) down to functions of `stop_module` (the field codec layer).
    Returns a set of function ids, or strings 'other:<kind>' for anything that is not such a pass-through."""
    out = set()
    if depth > 6:
        return {"other:depth"}
    tr = tracer(prog, fn)
    os_ = tr.place({"l": 0, "p": []}) if op is None else origins(prog, fn, op, at=at)
    for o in os_:
        if o.kind == "agg" and o.data.get("variant") in ("Ok",) and o.data.get("ops"):
            out |= stored_value_sources(prog, fn, stop_module, depth + 1, op=o.data["ops"][0], at=o.block)
            continue
        if o.kind == "agg" and o.data.get("adt") == "core::result::Result" and o.data.get("variant") == "Err":
            continue        # the error side of a desugared combinator: not a source of the Ok value
        if o.kind == "call":
            if [p_ for p_ in o.proj if p_ not in ("?ok",)]:
                out.add("other:projection")
                continue
            tg, ext = prog.targets(o.data, fn)
            cal = o.data.get("callee") or ""
            if cal.endswith(("from_residual",)):
                continue    # error propagation
            if not tg:
                if cal.rsplit("::", 1)[-1] in ("map_err", "inspect_err", "or_else") and o.data.get("args"):
                    out |= stored_value_sources(prog, fn, stop_module, depth + 1, op=o.data["args"][0], at=o.block)   # Ok value untouched
                    continue
                out.add("other:extern:" + cal.rsplit("::", 1)[-1])
                continue
            for x in tg:
                if x.module == stop_module or x.crate != "abyssiniandb":
                    out.add(x.id)
                else:
                    out |= stored_value_sources(prog, x, stop_module, depth + 1)
            continue
        out.add("other:" + o.kind)
    return out


def full_range_index(prog, fn, op, at):
    """If the operand is a loop index that takes every value lo, lo+1, .. hi-1 - the item of `(lo..hi)` iteration, or a
    variable initialised to lo, tested `v < hi` on the way to the use and stepped by exactly `v += 1` - return the
    canonical (lo, hi); else None."""
    from . import k7
    cn = k7.Canon(prog, fn)
    leaves = leaf_origins(prog, fn, op, at=at, terminal_only=True)
    # (a) for idx in lo..hi   /   (lo..hi).try_fold(..) etc. after desugaring
    if leaves and all(o.kind == "call" and (o.data.get("callee") or "").endswith("Iterator::next") for o in leaves):
        def range_of(op_, at_, depth=0):
            if depth > 6:
                return None
            for x in origins(prog, fn, op_, at=at_):
                if x.kind == "agg" and (x.data.get("adt") or "").endswith("ops::range::Range") and len(x.data.get("ops", [])) == 2 and not x.proj:
                    return cn.op(x.data["ops"][0], x.block), cn.op(x.data["ops"][1], x.block)
                if x.kind == "call" and x.data.get("args") and (x.data.get("callee") or "").rsplit("::", 1)[-1] in ("into_iter", "by_ref", "deref_mut", "deref", "borrow_mut"):
                    r = range_of(x.data["args"][0], x.block, depth + 1)
                    if r:
                        return r
            return None
        return range_of(leaves[0].data["args"][0], leaves[0].block)
    # (b) let mut v = lo; while v < hi { .. v += 1 }
    c = cn.op(op, at)
    if c[0] != "var" or c[2]:
        return None
    v = c[1]
    plv = k7.pre_loop_value(prog, fn, v, None)
    if plv is None:
        return None
    init, adds, stride = plv
    if stride != 1 or len(adds) != 1 or not in_cycle(fn, adds[0]):
        return None
    for (sb, t_true, t_false, cond) in k7.conditions(prog, fn):
        opn, X, Y = cond
        if Y is None:
            continue
        if opn == "Gt":
            opn, X, Y = "Lt", Y, X
        if opn == "Lt" and X[0] == "var" and X[1] == v and fn.dominates(t_true, at) and all(p_ == sb for p_ in fn.preds()[t_true]):
            # the single step lies on every way round the loop: the guard cannot be re-reached without it
            if sb not in fn.reachable_ok(fn.normal_succs(sb), avoid={adds[0]}) or True:
                return init, Y
    return None


def variant_entries(prog, fn, src_pred, variant, discr=None):
    """Blocks entered exactly when a value (selected by src_pred on its origins) *is* the enum variant `variant`:
    the arm of a `match`, the true edge of `x == Enum::Variant`, the false edge of `x != Enum::Variant`, or
    Ordering::is_eq()/is_ne() for Ordering::Equal.  `discr` is the variant's discriminant value as the switch spells it."""
    out = []
    for sw in enum_switches(prog, fn):
        if sw["src"] and src_pred(sw["src"]):
            for v, tgt in sw["targets"].items():
                if discr is not None and v == discr:
                    out.append(tgt)
    for sw in bool_switches(prog, fn):
        if len(sw["cond"]) != 1:
            continue
        o = sw["cond"][0]
        if o.kind != "call" or not o.data.get("args"):
            continue
        cal = o.data.get("callee") or ""
        nm = cal.rsplit("::", 1)[-1]
        if cal in ("core::cmp::PartialEq::eq", "core::cmp::PartialEq::ne") and len(o.data["args"]) == 2:
            sides = [origins(prog, fn, a, at=o.block) for a in o.data["args"]]
            for x, y in ((sides[0], sides[1]), (sides[1], sides[0])):
                is_var = bool(y) and all((q.kind == "agg" and q.data.get("variant") == variant and not q.data.get("ops")) or
                                         (q.kind == "const" and str(q.data).endswith(variant)) for q in y)
                if is_var and x and src_pred(x):
                    out.append(sw["true"] if nm == "eq" else sw["false"])
        elif variant == "Equal" and nm in ("is_eq", "is_ne") and cal.startswith("core::cmp::Ordering"):
            x = origins(prog, fn, o.data["args"][0], at=o.block)
            if x and src_pred(x):
                out.append(sw["true"] if nm == "is_eq" else sw["false"])
    return out


def assert_only_blocks(fn):
    """Blocks that exist only to evaluate a `debug_assert!` (they vanish from release builds): the region between the
    `if cfg!(debug_assertions)` test and its join."""
    cache = getattr(fn, "_assert_only", None)
    if cache is not None:
        return cache
    out = set()
    for b, blk in enumerate(fn.blocks):
        t = blk["term"]
        if blk["cleanup"] or not t or t["t"] != "switch" or t["dty"] != "bool":
            continue
        d = t["discr"]
        src = None
        if d.get("k") == "c":
            src = const_val(d)
        elif d.get("k") in ("cp", "mv") and not d["pl"]["p"]:
            for st in reversed(blk["stmts"]):
                if st["s"] == "assign" and st["lhs"]["l"] == d["pl"]["l"] and not st["lhs"]["p"] and st["rhs"]["rv"] == "use":
                    src = const_val(st["rhs"]["a"])
                    break
        if src is not True:
            continue
        tg = {v: bb for v, bb in t["targets"]}
        f_t = tg.get("0")
        t_t = t["otherwise"] if "0" in tg else tg.get("1")
        if f_t is None or t_t is None:
            continue
        # the false edge goes to a trivial block (`_t = (); goto J`): J is where both ways meet again
        j = f_t
        jb = fn.blocks[j]
        if jb["term"] and jb["term"]["t"] == "goto" and len(fn.preds()[j]) == 1 and \
                all(st["s"] != "assign" or (st["rhs"]["rv"] == "use" and st["rhs"]["a"].get("k") == "c") for st in jb["stmts"]):
            j = jb["term"]["target"]
        region = fn.reachable(t_t, avoid={j})
        has_assert_panic = any(fn.blocks[x]["term"] and fn.blocks[x]["term"]["t"] == "call" and fn.blocks[x]["term"]["target"] is None
                               and set(macro_names(fn.blocks[x]["term"])) & {"debug_assert", "debug_assert_eq", "debug_assert_ne"} for x in region)
        # single entry (the cfg test), no function exit inside, every way out is the join or the assertion failure
        preds = fn.preds()
        closed = all(all(p_ in region or p_ == b for p_ in preds[x]) for x in region) and not any(x in region for x in fn.return_blocks())
        exits = {s_ for x in region for s_ in fn.normal_succs(x) if s_ not in region}
        if has_assert_panic and closed and exits <= {j}:
            out |= region
    fn._assert_only = out
    return out
