"""Shared helpers for rule modules."""
from .model import Tracer, const_val, short, line_of, TRY_BRANCH


def callee_name(t):
    return (t.get("callee") or "").rsplit("::", 1)[-1]


def calls_to(prog, fn, target_fn=None, callee=None, pred=None):
    """(block, term) of call sites in fn resolving to target_fn (Fn) or with callee path == callee."""
    out = []
    for b, t in fn.calls():
        if target_fn is not None:
            tg, _ = prog.targets(t, fn)
            if not any(x.id == target_fn.id for x in tg):
                continue
        if callee is not None:
            if isinstance(callee, (tuple, list, set)):
                if t.get("callee") not in callee:
                    continue
            elif t.get("callee") != callee:
                continue
        if pred is not None and not pred(t):
            continue
        out.append((b, t))
    return out


def origins(prog, fn, op):
    return Tracer(prog, fn).operand(op)


def origin_calls(prog, fn, op):
    """Set of callee paths the operand's value may originate from (call roots only)."""
    return {o.data.get("callee") for o in origins(prog, fn, op) if o.kind == "call"}


def all_call_origin(prog, fn, op, target_fn, proj_has=None):
    """True iff every origin of op is the result of a call resolving to target_fn."""
    os_ = origins(prog, fn, op)
    if not os_:
        return False
    for o in os_:
        if o.kind != "call":
            return False
        tg, _ = prog.targets(o.data, fn)
        if not any(x.id == target_fn.id for x in tg):
            return False
        if proj_has is not None and not any(proj_has in p for p in o.proj):
            return False
    return True


def bool_switches(prog, fn):
    """For each `switch` on a bool: dict(block, cond_origins, true_target, false_target, negated)."""
    out = []
    tr = Tracer(prog, fn)
    for b, blk in enumerate(fn.blocks):
        t = blk["term"]
        if blk["cleanup"] or not t or t["t"] != "switch" or t["dty"] != "bool":
            continue
        tgts = {v: bb for v, bb in t["targets"]}
        if "0" in tgts:
            false_t, true_t = tgts["0"], t["otherwise"]
        elif "1" in tgts:
            true_t, false_t = tgts["1"], t["otherwise"]
        else:
            continue
        os_ = tr.operand(t["discr"])
        neg = False
        # strip Not
        while len(os_) == 1 and os_[0].kind == "un" and os_[0].data["op"] == "Not":
            neg = not neg
            os_ = tr.operand(os_[0].data["a"])
        if neg:
            true_t, false_t = false_t, true_t
        out.append({"block": b, "cond": os_, "true": true_t, "false": false_t})
    return out


def find_bool_split(prog, fn, cond_pred):
    """The unique bool switch whose (single) condition origin satisfies cond_pred(origin)."""
    hits = []
    for sw in bool_switches(prog, fn):
        if len(sw["cond"]) >= 1 and all(cond_pred(o) for o in sw["cond"]):
            hits.append(sw)
    return hits


def enum_switches(prog, fn):
    """Switches on discriminant(place): dict(block, place_origins, targets{variant index->bb}, otherwise)."""
    out = []
    tr = Tracer(prog, fn)
    for b, blk in enumerate(fn.blocks):
        t = blk["term"]
        if blk["cleanup"] or not t or t["t"] != "switch" or t["dty"] == "bool":
            continue
        os_ = tr.operand(t["discr"])
        if len(os_) == 1 and os_[0].kind == "discr":
            pl = os_[0].data["pl"]
            src = tr.place(pl)
            out.append({"block": b, "place": pl, "src": src,
                        "targets": {int(v): bb for v, bb in t["targets"]}, "otherwise": t["otherwise"]})
    return out


def diverges(fn, start):
    """No successful return is reachable from `start`."""
    return not fn.success_reach_return(start, ())


def region_dominated(fn, entry):
    """Blocks dominated by `entry` (normal edges)."""
    dom = fn.dominators()
    return {b for b, ds in dom.items() if entry in ds}


def where(fn, b=None):
    if b is None:
        return "%s (%s)" % (fn.id, fn.span)
    return "%s bb%d (%s)" % (fn.id, b, line_of(fn, b))


def is_call_to(prog, fn, o, target_fn):
    if o.kind != "call":
        return False
    tg, _ = prog.targets(o.data, fn)
    return any(x.id == target_fn.id for x in tg)


def const_origin(os_):
    """If all origins are the same constant, return it else None."""
    vals = set()
    for o in os_:
        if o.kind != "const":
            return None
        vals.add(o.data if not isinstance(o.data, list) else tuple(o.data))
    if len(vals) == 1:
        return next(iter(vals))
    return None


def macro_names(t):
    return [m.split(":", 1)[1] if ":" in m else m for m in t.get("macros", [])]
