"""The crate's own vu64 field reader (an override of vu64::io::ReadVu64::read_and_decode_vu64 for VarFile).

A field written by `encode_and_write_vu64` occupies `decoded_len(first byte)` bytes.  The reader must consume exactly
that many: one first byte plus `decoded_len(first) - 1` follow bytes on every path, and hand (len, first, follow) to the
decoder.  One byte too many or too few shifts every later field of the record (and, for the length fields, the
payload), for the encodings on that path only - a width that ordinary tests never reach.

Accepted shapes (everything else fails closed as `shape-not-recognised`):
  * `match follow_len { k => <fixed-width reads totalling k bytes>, .., _ => read_max_8_bytes(follow_len) }`
    with `follow_len = decoded_len(first) as usize - 1` (or a match on `len` itself, then k-1 bytes);
  * a single variable-length read whose length operand is `decoded_len(first) - 1`.
"""
from .model import short
from .util import where, origins, leaf_origins
from . import k7

TRAIT = "vu64::io::ReadVu64"
FIXED = {"read_u8": 1, "read_u16_le": 2, "read_u32_le": 4, "read_u64_le": 8, "read_one_byte": 1}
VARLEN = {"read_max_8_bytes": 1, "read_exact_maybeslice": 1}     # name -> index of the length operand
SLICE = {"read_exact_small", "read_exact_max8byte", "read_exact"}  # length = len(slice operand)


def _reader(prog):
    fs = [f for f in prog.fns.values() if f.crate == "abyssiniandb" and f.name == "read_and_decode_vu64" and f.impl_trait == TRAIT]
    return fs


def _mname(t):
    return (t.get("callee") or "").rsplit("::", 1)[-1]


def _in(blk, declen_block):
    return blk in declen_block if isinstance(declen_block, (set, frozenset, list, tuple)) else blk == declen_block


def _is_len_minus_1(c, declen_block):
    """canon c == (decoded_len(..) [as usize]) - 1   (declen_block: the block of the decoded_len call, or a set of blocks of
    decoded_len calls that are all applied to the same first byte)"""
    return c[0] == "bin" and c[1] == "Sub" and c[3] == ("c", 1) and c[2][0] == "call" and c[2][1].endswith("decoded_len") and _in(c[2][3], declen_block)


def _is_len(c, declen_block):
    return c[0] == "call" and c[1].endswith("decoded_len") and _in(c[3], declen_block)


def _leaves(prog, fn, os_, depth=0):
    """Look through arithmetic / bit operations and derefs of call results."""
    out = []
    for o in os_:
        if o.kind in ("bin", "un") and depth < 6:
            for side in ("a", "b"):
                if side in o.data and o.data[side].get("k") in ("cp", "mv"):
                    out.extend(_leaves(prog, fn, leaf_origins(prog, fn, o.data[side], at=o.block, terminal_only=True), depth + 1))
        elif o.kind == "call" and depth < 6 and o.data.get("args") and (
                (o.data.get("callee") or "") in ("core::convert::From::from", "core::convert::Into::into") or
                ((o.data.get("callee") or "").startswith(("core::result::Result", "core::option::Option")) and (o.data.get("callee") or "").endswith("::map")
                 and len(o.data["args"]) == 2 and isinstance(o.data["args"][1].get("v"), dict)
                 and str(o.data["args"][1]["v"].get("fn", "")).endswith(("From::from", "Into::into")))):
            # a widening conversion of the bytes read, also when mapped over the Result (`read_u8().map(u64::from)?`)
            out.extend(_leaves(prog, fn, leaf_origins(prog, fn, o.data["args"][0], at=o.block, terminal_only=True), depth + 1))
        elif o.kind == "call" and (o.data.get("callee") or "").rsplit("::", 1)[-1] in ("deref", "as_ref", "as_slice", "borrow") and o.data.get("args") and depth < 6:
            out.extend(_leaves(prog, fn, leaf_origins(prog, fn, o.data["args"][0], at=o.block, terminal_only=True), depth + 1))
        else:
            out.append(o)
    return out


def check_vu64_decoder(ctx, prog, rule="vu64-reader-consumes-encoded-length"):
    fs = _reader(prog)
    if not fs:
        # feature sets without vf_vu64 have no such override; the trait's own default (dependency) would be used
        has_trait_impl = any(i.get("trait") == TRAIT and i["crate"] == "abyssiniandb" for i in prog.impls)
        ctx.ok(rule, "not-overridden", "no override of read_and_decode_vu64 in this configuration (trait impl present: %s)" % has_trait_impl)
        return
    if not ctx.check(len(fs) == 1, rule, "anchor", "%d overrides of read_and_decode_vu64" % len(fs)):
        return
    fn = fs[0]
    ctx.touch(fn, len(fn.blocks))
    cn = k7.Canon(prog, fn)
    from .util import assert_only_blocks
    calls = [(b, t) for b, t in fn.calls() if not fn.is_cleanup(b) and b not in assert_only_blocks(fn)]
    reads = [(b, t) for b, t in calls if _mname(t) in FIXED or _mname(t) in VARLEN or _mname(t) in SLICE]
    dl = [(b, t) for b, t in calls if _mname(t) == "decoded_len"]
    dec = [(b, t) for b, t in calls if _mname(t).startswith("decode_with_first")]
    if not ctx.check(len(dl) >= 1 and len(dec) == 1 and reads, rule, "shape-not-recognised",
                     "expected decoded_len call(s), one decode call and the byte reads (found %d / %d / %d)" % (len(dl), len(dec), len(reads)), where=where(fn)):
        return
    dl.sort(key=lambda x: len(fn.dominators().get(x[0], ())))
    dlb, dlt = dl[0]
    decb, dect = dec[0]
    # the first byte: the single read that dominates decoded_len and feeds it (several decoded_len calls - one per helper
    # of a small wrapper type, say - must all be applied to that same byte)
    first = [(b, t) for b, t in reads if fn.dominates(b, dlb)]
    ok_first = len(first) == 1 and FIXED.get(_mname(first[0][1])) == 1
    if ok_first:
        for db_, dt_ in dl:
            o = leaf_origins(prog, fn, dt_["args"][0], at=db_, terminal_only=True)
            ok_first = ok_first and bool(o) and all(x.kind == "call" and x.block == first[0][0] for x in o)
    dlb = frozenset(b for b, t in dl) if len(dl) > 1 else dlb
    dlb0 = dl[0][0]
    ctx.check(ok_first, rule, "first-byte", "decoded_len is not applied to the one byte read first", where=where(fn, dlb0))
    follow = [(b, t) for b, t in reads if not fn.dominates(b, dlb0)]
    # every follow read lies between decoded_len and the decode call
    ctx.check(all(fn.dominates(dlb0, b) and decb in fn.reachable(b) for b, t in follow), rule, "reads-between",
              "a byte read lies outside the window between decoded_len and the decode call", where=where(fn))
    # decode arguments: (len, first byte, follow value)
    a0 = leaf_origins(prog, fn, dect["args"][0], at=decb, terminal_only=True)
    a1 = leaf_origins(prog, fn, dect["args"][1], at=decb, terminal_only=True)
    ok_args = bool(a0) and all(x.kind == "call" and _in(x.block, dlb) for x in a0) and bool(a1) and ok_first and all(x.kind == "call" and x.block == first[0][0] for x in a1)
    if len(dect["args"]) > 2:
        a2 = _leaves(prog, fn, leaf_origins(prog, fn, dect["args"][2], at=decb, terminal_only=True))
        fb = {b for b, t in follow}
        ok_args = ok_args and bool(a2) and all((x.kind == "call" and x.block in fb) or (x.kind == "const" and (x.data == 0 or (isinstance(x.data, tuple) and x.data[:1] == ("fn",)))) for x in a2)
    ctx.check(ok_args, rule, "decode-args", "the decoder is not given (decoded_len(first), first, the follow bytes read)", where=where(fn, decb))

    def width_of(b, t, want):
        """bytes consumed by this read if it is decidable: int, or 'var' when the length operand equals `want` canon."""
        n = _mname(t)
        if n in FIXED:
            return FIXED[n]
        if n in VARLEN:
            c = cn.op(t["args"][VARLEN[n]], b)
            if c[0] == "c":
                return c[1]
            return ("var", c)
        if n in SLICE:
            c = cn.op(t["args"][1], b)
            return ("slice", c)
        return None

    # shape 1: a switch on follow_len (or len)
    sw = None
    for b, blk in enumerate(fn.blocks):
        t = blk["term"]
        if blk["cleanup"] or not t or t["t"] != "switch" or t["dty"] == "bool" or not fn.dominates(dlb0, b) or _in(b, dlb):
            continue
        c = cn.op(t["discr"], b)
        if _is_len_minus_1(c, dlb):
            sw = (b, t, 0, c)
        elif _is_len(c, dlb):
            sw = (b, t, 1, c)
    if sw:
        sb, st, bias, disc = sw
        arms = [(int(v), bb) for v, bb in st["targets"]]
        tgt_blocks = [bb for v, bb in arms] + [st["otherwise"]]
        n_arm = 0
        for v, bb in arms:
            k = v - bias
            region = {x for x in fn.reachable(bb, avoid={decb}) if all(x not in fn.reachable(o, avoid={decb}) or o == bb for o in tgt_blocks if o != bb)}
            mine = [(b, t) for b, t in follow if b in fn.reachable(bb, avoid={decb}) and not any(b in fn.reachable(o, avoid={decb}) for o in tgt_blocks if o != bb)]
            ws = [width_of(b, t, None) for b, t in mine]
            n_arm += 1
            ctx.check(all(isinstance(w, int) for w in ws) and sum(w for w in ws if isinstance(w, int)) == k and k >= 0, rule, "arm:%d" % v,
                      "for encodings with %d follow byte(s) the reader consumes %s byte(s): every later field of the record is read shifted"
                      % (k, "+".join(str(w) for w in ws) or "0"), where=where(fn, bb))
        ob = st["otherwise"]
        mine = [(b, t) for b, t in follow if b in fn.reachable(ob, avoid={decb}) and not any(b in fn.reachable(o, avoid={decb}) for v, o in arms)]
        ok = len(mine) == 1
        if ok:
            w = width_of(mine[0][0], mine[0][1], None)
            want = disc if bias == 0 else None
            ok = isinstance(w, tuple) and w[0] == "var" and (k7.same(w[1], disc) if bias == 0 else _is_len_minus_1(w[1], dlb))
        ctx.check(ok, rule, "arm:otherwise", "the general arm does not read exactly `decoded_len(first) - 1` follow bytes", where=where(fn, ob))
        ctx.floor(rule, "explicit width arms", n_arm, 1)
        return
    # shape 2: one variable-length read of len-1 bytes
    if len(follow) == 1:
        w = width_of(follow[0][0], follow[0][1], None)
        ok = isinstance(w, tuple) and ((w[0] == "var" and _is_len_minus_1(w[1], dlb)) or (w[0] == "slice"))
        if ok and w[0] == "slice":
            # length of the slice operand: buf[..len-1]
            o = origins(prog, fn, follow[0][1]["args"][1], at=follow[0][0])
            ok = False
            for x in o:
                if x.kind == "call" and "index" in (x.data.get("callee") or "") and len(x.data["args"]) == 2:
                    for y in origins(prog, fn, x.data["args"][1], at=x.block):
                        if y.kind == "agg" and y.data.get("ops"):
                            ok = _is_len_minus_1(cn.op(y.data["ops"][-1], y.block), dlb)
        ctx.check(ok, rule, "single-read", "the follow bytes read are not exactly `decoded_len(first) - 1`", where=where(fn, follow[0][0]))
        return
    ctx.fail(rule, "shape-not-recognised", "the reader's byte consumption is neither a match on the follow length nor a single read of `decoded_len(first) - 1` bytes", where=where(fn))


def check_skip_helpers(ctx, prog, rule="vu64-reader-consumes-encoded-length"):
    """The position helpers that step over a record's size field (`seek_skip_to_piece_key` / `_value`, vu64 layout):
    the number of follow bytes skipped is `decoded_len(first) - 1`, and whether to skip is decided by that same length
    (`len > 1`, `len - 1 > 0`, ...) or not decided at all - not by some other reading of the first byte that agrees
    with it for most values only."""
    from .cursor import skip_to_fns
    n = 0
    from .roles import Roles
    _ss = Roles(prog).get("SEEK_START")
    seek_start_id = _ss.id if _ss is not None else None
    for fn in skip_to_fns(prog):
        dl = [(b, t) for b, t in fn.calls() if not fn.is_cleanup(b) and _mname(t) == "decoded_len"]
        if not dl:
            continue            # fixed-width layout: nothing depends on the first byte
        n += 1
        ctx.touch(fn, len(fn.blocks))
        cn = k7.Canon(prog, fn)
        if not ctx.check(len(dl) == 1, rule, "skip:%s:anchor" % fn.name, "%d decoded_len calls in %s" % (len(dl), fn.name), where=where(fn)):
            continue
        dlb = dl[0][0]
        skips = []
        for b, t in fn.calls():
            if fn.is_cleanup(b) or b == dlb or not fn.dominates(dlb, b) or len(t.get("args", [])) < 2:
                continue
            if (t.get("callee") or "").startswith("core::ops::"):
                continue        # `offset + (len - 1)`: arithmetic on the amount is not the positioning call
            c = cn.op(t["args"][1], b)
            if _is_len_minus_1(_strip_new(c), dlb):
                # a *relative* step of len - 1 from behind the first byte; the same amount handed to an absolute
                # positioning call (or added to the record offset) lands one byte short
                tg = prog.targets(t, fn)[0]
                if not any(x.id == seek_start_id for x in tg):
                    skips.append((b, t))
            elif seek_start_id is not None and any(x.id == seek_start_id for x in prog.targets(t, fn)[0]):
                # absolute form: record offset + decoded_len(first)
                if c[0] == "call" and c[1].endswith("Add::add") and len(c[2]) == 2 and any(z[0] == "p" and z[1] >= 2 and not z[2] for z in c[2]) \
                        and any(_is_len(_strip_new(z), dlb) for z in c[2]):
                    skips.append((b, t))
        if not ctx.check(len(skips) == 1, rule, "skip:%s:amount" % fn.name,
                         "%s does not step over exactly `decoded_len(first) - 1` follow bytes of the size field" % fn.name, where=where(fn)):
            continue
        sb = skips[0][0]
        bad = None
        for (cb, t_true, t_false, (op, X, Y)) in k7.conditions(prog, fn):
            if not fn.dominates(cb, sb) or cb == sb or t_true == t_false:
                continue
            on_true, on_false = fn.dominates(t_true, sb), fn.dominates(t_false, sb)
            if on_true == on_false:
                continue        # the skip does not depend on this test
            operands = [z for z in (X, Y) if z is not None]
            ok = all(z[0] == "c" or _is_len(_strip_new(z), dlb) or _is_len_minus_1(_strip_new(z), dlb) for z in operands) and any(z[0] != "c" for z in operands)
            if not ok:
                bad = (cb, op, X, Y)
        ctx.check(bad is None, rule, "skip:%s:decided-by-length" % fn.name,
                  "%s decides whether to step over the size field's follow bytes by `%s`, not by the decoded length itself: for first bytes where the two disagree "
                  "every later field of the record is read one position off" % (fn.name, ("%s %s %s" % (k7.expr_str(bad[2]), bad[1], k7.expr_str(bad[3]) if bad[3] else "")) if bad else ""),
                  where=where(fn, bad[0]) if bad else where(fn))
    if n == 0:
        ctx.ok(rule, "skip:not-applicable", "fixed-width size field in this configuration")


def _strip_new(c):
    while c[0] == "call" and len(c[2]) == 1 and c[1].rsplit("::", 1)[-1] in ("into", "from", "new", "as_value", "try_into", "unwrap"):
        c = c[2][0]
    if c[0] == "un" and len(c) == 3:
        return c
    return c
