"""Program model over the extracted facts: functions, CFGs, call resolution,
dominators, success-path restriction, origin tracing, effect summaries."""
import re
from collections import defaultdict, deque

ERR_CALLEES = ("core::ops::try_trait::FromResidual::from_residual",)
TRY_BRANCH = "core::ops::try_trait::Try::branch"
FN_TRAITS = ("core::ops::function::Fn::call", "core::ops::function::FnMut::call_mut",
             "core::ops::function::FnOnce::call_once")
PANIC_CALLEES = ("core::panicking::panic_fmt", "core::panicking::panic", "core::panicking::panic_display",
                 "core::panicking::assert_failed", "core::panicking::panic_explicit",
                 "core::panicking::unreachable_display", "core::panicking::panic_nounwind",
                 "std::rt::begin_panic", "core::panicking::panic_bounds_check")


STD_IO_TRAITS = ("std::io::Read", "std::io::Write", "std::io::Seek")

DEFAULT_VIA = {
    "std::io::Write::write_all": ("std::io::Write", "write"),
    "std::io::Read::read_exact": ("std::io::Read", "read"),
    "std::io::Seek::stream_position": ("std::io::Seek", "seek"),
    "std::io::Seek::rewind": ("std::io::Seek", "seek"),
}


def ty_head(tystr):
    t = tystr.strip()
    while t.startswith("&"):
        t = t[1:].strip()
        if t.startswith("mut "):
            t = t[4:].strip()
    return re.sub(r"<.*$", "", t)


def is_generic_param(tystr):
    return bool(re.match(r"^[A-Za-z_][A-Za-z0-9_]*$", tystr)) and tystr not in (
        "u8", "u16", "u32", "u64", "u128", "usize", "i8", "i16", "i32", "i64", "i128", "isize", "bool", "str", "char")


def short(ty):
    """Strip module paths from a type / path string for display."""
    return re.sub(r"(?:[A-Za-z_][A-Za-z0-9_]*::)+", "", ty)


class Fn:
    def __init__(self, crate, raw):
        self.crate = crate
        self.raw = raw
        self.id = raw["id"]
        self.dp = raw["dp"]
        self.name = raw["name"]
        self.kind = raw["kind"]
        self.span = raw["span"]
        self.blocks = raw["blocks"]
        self.locals = raw["locals"]
        self.arg_count = raw["arg_count"]
        self.impl_self = raw.get("impl_self")
        self.impl_self_adt = raw.get("impl_self_adt")
        self.impl_trait = raw.get("impl_trait")
        self.trait_default_of = raw.get("trait_default_of")
        self.parent = raw.get("parent")
        self.is_pub = raw.get("pub", False)
        self.from_expansion = raw.get("from_expansion", False) or raw.get("impl_from_expansion", False)
        self.inputs = raw.get("inputs", [])
        self.output = raw.get("output", "")
        self._succ = None
        self._pred = None
        self._defs = None
        self._dom = None
        self.module = self._module()

    def _module(self):
        # dp: crate::a::b::{impl#3}::name  -> crate::a::b
        parts = self.dp.split("::")
        out = []
        for p in parts[:-1]:
            if p.startswith("{"):
                break
            out.append(p)
        return "::".join(out)

    @property
    def file(self):
        return self.span.rsplit(":", 1)[0]

    def __repr__(self):
        return "Fn(%s)" % self.id

    # -- CFG ---------------------------------------------------------------
    def term(self, b):
        return self.blocks[b]["term"]

    def normal_succs(self, b):
        """Successors excluding unwind/cleanup edges."""
        t = self.blocks[b]["term"]
        if t is None:
            return []
        k = t["t"]
        if k == "goto":
            return [t["target"]]
        if k == "switch":
            out = [x[1] for x in t["targets"]] + [t["otherwise"]]
            seen = []
            for x in out:
                if x not in seen:
                    seen.append(x)
            return seen
        if k in ("drop", "assert"):
            return [t["target"]]
        if k == "call":
            return [t["target"]] if t["target"] is not None else []
        return []

    def succs(self):
        if self._succ is None:
            self._succ = [self.normal_succs(b) for b in range(len(self.blocks))]
        return self._succ

    def preds(self):
        if self._pred is None:
            p = [[] for _ in self.blocks]
            for b, ss in enumerate(self.succs()):
                for s in ss:
                    p[s].append(b)
            self._pred = p
        return self._pred

    def is_cleanup(self, b):
        return self.blocks[b]["cleanup"]

    def calls(self):
        """Yield (block index, call terminator) for all non-cleanup blocks."""
        for b, blk in enumerate(self.blocks):
            t = blk["term"]
            if t and t["t"] == "call" and not blk["cleanup"]:
                yield b, t

    def return_blocks(self):
        return [b for b, blk in enumerate(self.blocks)
                if blk["term"] and blk["term"]["t"] == "return" and not blk["cleanup"]]

    def error_blocks(self):
        """Blocks on which the function is propagating / constructing an Err (or diverging)."""
        if getattr(self, "_err", None) is not None:
            return set(self._err)
        out = set()
        for b, blk in enumerate(self.blocks):
            if blk["cleanup"]:
                out.add(b)
                continue
            t = blk["term"]
            if t and t["t"] == "call":
                if t.get("callee") in ERR_CALLEES:
                    out.add(b)
                if t["target"] is None:
                    out.add(b)  # diverging call (panic etc.)
            if t and t["t"] in ("unreachable", "resume", "terminate"):
                out.add(b)
            for s in blk["stmts"]:
                if s["s"] == "assign" and (s["lhs"]["l"] == 0 or s["lhs"]["l"] in self.raw.get("err_ret_locals", ())) and not s["lhs"]["p"]:
                    r = s["rhs"]
                    if r["rv"] == "agg" and r.get("agg") == "adt" and r.get("adt") == "core::result::Result" \
                            and r.get("variant") == "Err":
                        out.add(b)
        self._err = frozenset(out)
        return out

    def reachable(self, start, avoid=()):
        """Blocks reachable from `start` (list or int) over normal edges, not entering `avoid`."""
        if isinstance(start, int):
            start = [start]
        avoid = set(avoid)
        seen = set()
        dq = deque(s for s in start if s not in avoid)
        seen.update(dq)
        succ = self.succs()
        while dq:
            b = dq.popleft()
            for s in succ[b]:
                if s not in seen and s not in avoid:
                    seen.add(s)
                    dq.append(s)
        return seen

    def _dominators_on(self, avoid):
        reach = self.reachable(0, avoid=avoid)
        order = sorted(reach)
        full = set(order)
        dom = {b: set(full) for b in order}
        dom[0] = {0}
        preds = self.preds()
        changed = True
        while changed:
            changed = False
            for b in order:
                if b == 0:
                    continue
                ps = [p for p in preds[b] if p in reach]
                new = None
                for p in ps:
                    new = set(dom[p]) if new is None else (new & dom[p])
                new = (new or set()) | {b}
                if new != dom[b]:
                    dom[b] = new
                    changed = True
        return dom

    def reachable_ok(self, start, avoid=()):
        """Blocks reachable from `start` without entering `avoid` or a block that is already propagating an error."""
        return self.reachable(start, set(avoid) | self.error_blocks())

    def dominators(self):
        """dom[b] = set of blocks dominating b (normal edges, from block 0).

        Success-path dominance: blocks that propagate / construct the function's own Err (and everything only
        reachable through them) are left out of the graph, so "a dominates b" reads "every path to b that has not
        already failed passes a" - what every rule means, and stable when a callee's `?` exits rejoin the caller at an
        inlined call's continuation.  Blocks that are themselves on an error path keep their ordinary dominators."""
        if self._dom is not None:
            return self._dom
        full = self._dominators_on(())
        err = self.error_blocks() - {0}
        ok = self._dominators_on(err)
        dom = dict(full)
        dom.update(ok)
        self._dom = dom
        return dom

    def dominates(self, a, b):
        d = self.dominators()
        return b in d and a in d[b]

    def success_reach_return(self, start, avoid):
        """Is a *successful* return reachable from start without entering `avoid` or an error block?"""
        av = set(avoid) | self.error_blocks()
        r = self.reachable(start, av)
        return any(b in r for b in self.return_blocks())

    # -- defs --------------------------------------------------------------
    def defs(self):
        """local -> list of (block, kind, payload) definitions.
        kind: 'assign' (payload = stmt), 'call' (payload = term)."""
        if self._defs is None:
            d = defaultdict(list)
            for b, blk in enumerate(self.blocks):
                if blk["cleanup"]:
                    continue
                for s in blk["stmts"]:
                    if s["s"] == "assign":
                        d[s["lhs"]["l"]].append((b, "assign", s))
                t = blk["term"]
                if t and t["t"] == "call":
                    d[t["dest"]["l"]].append((b, "call", t))
            self._defs = d
        return self._defs

    def local_name(self, l):
        return self.locals[l].get("name")

    def local_ty(self, l):
        return self.locals[l]["ty"]


class Program:
    def __init__(self, facts):
        self.facts = facts
        self.fns = {}
        self.by_name = defaultdict(list)
        self.consts = {}
        self.adts = {}
        self.impls = []
        self.traits = {}
        self.features = {}
        for crate, f in facts.items():
            self.features[crate] = f["features"]
            for raw in f["functions"]:
                fn = Fn(crate, raw)
                self.fns[fn.id] = fn
                self.by_name[fn.name].append(fn)
            for c in f["consts"]:
                self.consts[c["id"]] = c
            for a in f["adts"]:
                self.adts[a["id"]] = a
            for i in f["impls"]:
                i = dict(i)
                i["crate"] = crate
                self.impls.append(i)
            for t in f["traits"]:
                self.traits[t["id"]] = t
        # trait -> method name -> [fn ids of impls]
        self.trait_impls = defaultdict(lambda: defaultdict(list))
        self.trait_impls_self = defaultdict(lambda: defaultdict(list))
        for i in self.impls:
            tr = i.get("trait")
            if tr:
                for it in i["items"]:
                    self.trait_impls[tr][it["name"]].append(it["id"])
                    self.trait_impls_self[tr][it["name"]].append((i["self"], it["id"]))
        self._closures_of = defaultdict(list)
        for fn in self.fns.values():
            if fn.kind == "Closure":
                self._closures_of[fn.parent].append(fn)
        self._callers = None

    def remove_fn(self, fid):
        f = self.fns.pop(fid, None)
        if f is None:
            return
        self.by_name[f.name] = [x for x in self.by_name[f.name] if x.id != fid]
        # closures of a removed helper were copied textually into no caller: keep them addressable under the helper's id
        self._callers = None

    def replace_fn(self, nf):
        """Swap in a rewritten body for an existing function (helper normalisation); drops derived caches."""
        old = self.fns.get(nf.id)
        self.fns[nf.id] = nf
        lst = self.by_name[nf.name]
        for i, f in enumerate(lst):
            if f is old or f.id == nf.id:
                lst[i] = nf
                break
        else:
            lst.append(nf)
        for par, cl in self._closures_of.items():
            for i, f in enumerate(cl):
                if f.id == nf.id:
                    cl[i] = nf
        self._callers = None
        self.__dict__.pop("_fnitems", None)
        for attr in ("_rule_cache", "_field_cache"):
            if hasattr(self, attr):
                delattr(self, attr)

    # -- lookup helpers ------------------------------------------------------
    def closures_of(self, fn, _seen=None):
        """Closures defined in fn (transitively), plus lib functions that fn passes by name where a closure could
        stand (`.map(helper)`), plus closures adopted from helpers that were inlined into fn."""
        _seen = _seen if _seen is not None else {fn.id}
        out = []
        cands = list(self._closures_of.get(fn.id, [])) + self._fn_items_passed(fn)
        for c in cands:
            if c.id in _seen:
                continue
            _seen.add(c.id)
            out.append(c)
            out.extend(self.closures_of(c, _seen))
        return out

    def _fn_items_passed(self, fn):
        cache = self.__dict__.setdefault("_fnitems", {})
        if fn.id in cache:
            return cache[fn.id]
        out = []
        for b, t in fn.calls():
            for a in t["args"]:
                v = a.get("v") if isinstance(a, dict) and a.get("k") == "c" else None
                if isinstance(v, dict) and v.get("fn") in self.fns and self.fns[v["fn"]].crate == fn.crate and self.fns[v["fn"]].crate == "abyssiniandb":
                    if self.fns[v["fn"]] not in out:
                        out.append(self.fns[v["fn"]])
        cache[fn.id] = out
        return out

    def drop_closure(self, cid):
        """A closure that has been spliced into its parent stops being a body of its own."""
        f = self.fns.pop(cid, None)
        if f is None:
            return
        self.by_name[f.name] = [x for x in self.by_name[f.name] if x.id != cid]
        for par in list(self._closures_of):
            self._closures_of[par] = [x for x in self._closures_of[par] if x.id != cid]
        self._callers = None
        self.__dict__.pop("_fnitems", None)

    def adopt_closures(self, new_parent_id, old_parent_id):
        for c in self._closures_of.get(old_parent_id, []):
            if c not in self._closures_of[new_parent_id]:
                self._closures_of[new_parent_id].append(c)

    def find(self, name=None, self_adt=None, trait=None, crate=None, module=None, pred=None):
        out = []
        cands = self.by_name.get(name, []) if name else self.fns.values()
        for fn in cands:
            if self_adt is not None and fn.impl_self_adt != self_adt:
                continue
            if trait is not None and fn.impl_trait != trait:
                continue
            if trait is None and self_adt is not None and False:
                continue
            if crate is not None and fn.crate != crate:
                continue
            if module is not None and fn.module != module:
                continue
            if pred is not None and not pred(fn):
                continue
            out.append(fn)
        return out

    def one(self, **kw):
        r = self.find(**kw)
        if len(r) != 1:
            raise AnchorError("anchor %r resolved to %d functions" % (kw, len(r)))
        return r[0]

    # -- call resolution -----------------------------------------------------
    def targets(self, t, caller=None):
        """Resolve a call terminator to analysed function bodies.
        Returns (list of Fn, kind) with kind in direct|generic|dyn|closure|extern|indirect."""
        callee = t.get("callee")
        if callee is None:
            return [], "indirect"
        if caller is not None and caller.crate == "rabuf" and t.get("callee_trait") in STD_IO_TRAITS \
                and t.get("gargs") and is_generic_param(t["gargs"][0]):
            # rabuf's RaBuf<T>/Chunk<U> are generic over the *underlying* file; the only instantiation in
            # this program is std::fs::File (asserted by Program.check_rabuf_instantiation)
            return [], "extern"
        res = t.get("resolved")
        if res and res in self.fns and not t.get("virtual"):
            return [self.fns[res]], "direct"
        if callee in FN_TRAITS:
            g0 = t["gargs"][0] if t.get("gargs") else ""
            m = re.search(r"\{closure@", g0)
            if m:
                # closure type printed as {closure@file:line:col}; match by span
                for fn in self.fns.values():
                    if fn.kind == "Closure" and _closure_matches(g0, fn):
                        return [fn], "closure"
            return [], "fnparam"
        if callee in DEFAULT_VIA and t.get("gargs"):
            # std default method implemented in terms of a required method (write_all -> write ...)
            tr0, meth = DEFAULT_VIA[callee]
            selfty = t["gargs"][0]
            cands = self.trait_impls_self.get(tr0, {}).get(meth, [])
            exact = [self.fns[i] for (st, i) in cands if ty_head(st) == ty_head(selfty) and i in self.fns]
            if exact:
                return exact, "direct"
            if is_generic_param(selfty):
                return [self.fns[i] for (st, i) in cands if i in self.fns], "generic"
            return [], "extern"
        if res and not t.get("virtual"):
            # statically resolved to a body outside the analysed crates (std / core impl)
            return [], "extern"
        tr = t.get("callee_trait")
        if tr and tr in self.trait_impls:
            name = callee.rsplit("::", 1)[1]
            ids = list(self.trait_impls[tr].get(name, []))
            out = [self.fns[i] for i in ids if i in self.fns]
            # default body
            if callee in self.fns and (not res or res == callee):
                out.append(self.fns[callee])
            if out:
                return out, ("dyn" if t.get("virtual") else "generic")
        if callee in self.fns:
            return [self.fns[callee]], "direct"
        return [], "extern"

    def check_rabuf_instantiation(self):
        """All mentions of rabuf::RaBuf<..> in abyssiniandb's types must be RaBuf<std::fs::File>."""
        bad = set()
        n = 0
        for fn in self.fns.values():
            if fn.crate != "abyssiniandb":
                continue
            for l in fn.locals:
                for m in re.finditer(r"rabuf::RaBuf<([^<>]*)>", l["ty"]):
                    n += 1
                    if m.group(1) != "std::fs::File":
                        bad.add(m.group(1))
        for a in self.adts.values():
            for v in a["variants"]:
                for f in v["fields"]:
                    for m in re.finditer(r"rabuf::RaBuf<([^<>]*)>", f["ty"]):
                        n += 1
                        if m.group(1) != "std::fs::File":
                            bad.add(m.group(1))
        return n, bad

    def callers(self):
        if self._callers is None:
            c = defaultdict(list)
            for fn in self.fns.values():
                for b, t in fn.calls():
                    for tg in self.targets(t, fn)[0]:
                        c[tg.id].append((fn, b))
            self._callers = c
        return self._callers


def _closure_matches(tystr, fn):
    # tystr like "{closure@src/filedb/inner/mod.rs:66:25: 66:28}" ; fn.span "src/filedb/inner/mod.rs:66"
    m = re.search(r"\{closure@([^:}]+):(\d+):", tystr)
    if not m:
        return False
    return fn.span == "%s:%s" % (m.group(1), m.group(2)) or fn.span.endswith("%s:%s" % (m.group(1), m.group(2)))


class AnchorError(Exception):
    pass


# ---------------------------------------------------------------------------
# Origin tracing (flow-insensitive def-use chase through MIR temporaries)
# ---------------------------------------------------------------------------
class Origin:
    """A root the value may originate from."""
    __slots__ = ("kind", "data", "proj", "block")

    def __init__(self, kind, data, proj=(), block=None):
        self.kind = kind      # param | call | const | bin | un | agg | cast | discr | unknown | local | repeat
        self.data = data
        self.proj = tuple(proj)
        self.block = block

    def key(self):
        if self.kind == "call":
            return ("call", self.block, self.data.get("callee"), self.proj)
        if self.kind == "const":
            return ("const", repr(self.data))
        if self.kind == "param":
            return ("param", self.data, self.proj)
        return (self.kind, self.block, repr(self.data)[:200], self.proj)

    def __repr__(self):
        if self.kind == "call":
            return "call@bb%s(%s)%s" % (self.block, short(self.data.get("callee") or "?"), "." + ".".join(self.proj) if self.proj else "")
        if self.kind == "param":
            return "param%d%s" % (self.data, "." + ".".join(self.proj) if self.proj else "")
        if self.kind == "const":
            return "const(%s)" % (self.data,)
        return "%s@bb%s%s" % (self.kind, self.block, "." + ".".join(self.proj) if self.proj else "")


def norm_proj(p):
    """Drop deref markers; keep field / downcast names (short)."""
    out = []
    for e in p:
        if e == "*":
            continue
        if e.startswith("f:"):
            out.append("f:" + e[2:].rsplit("::", 1)[-1] if "::" in e else e)
        else:
            out.append(e)
    return out


def const_val(op):
    """Python value of a constant operand or None."""
    if op.get("k") != "c":
        return None
    v = op.get("v")
    if not isinstance(v, dict):
        return None
    if "int" in v:
        return int(v["int"])
    if "bool" in v:
        return bool(v["bool"])
    if "bytes" in v:
        return bytes(v["bytes"])
    if "ints" in v:
        return tuple(int(x) for x in v["ints"])
    if "str" in v:
        return v["str"]
    if "fn" in v:
        return ("fn", v["fn"])
    if "zst" in v:
        return ("zst", v["zst"])
    return None


class Tracer:
    """Def-use chase.  With `at` (a block index) only definitions that can reach that block are considered
    (a definition in block D reaches a use in block U iff D == U or U is CFG-reachable from D); without it the
    trace is flow-insensitive."""

    def __init__(self, prog, fn, max_depth=40):
        self.prog = prog
        self.fn = fn
        self.max_depth = max_depth
        self._reach = {}

    def reaches(self, d, u):
        if d == u:
            return True
        r = self._reach.get(d)
        if r is None:
            r = self.fn.reachable(self.fn.normal_succs(d))
            self._reach[d] = r
        return u in r

    def operand(self, op, proj=(), at=None):
        if op.get("k") == "c":
            return [Origin("const", const_val(op) if const_val(op) is not None else op.get("cdef") or op.get("ty"), proj)]
        if op.get("k") in ("cp", "mv"):
            return self.place(op["pl"], proj, at=at)
        return [Origin("unknown", None)]

    def place(self, pl, extra=(), _depth=0, _seen=None, at=None):
        proj = norm_proj(pl["p"]) + list(extra)
        self._at_stack = [at]
        return self._local(pl["l"], proj, _depth, _seen or set(), at)

    def _local(self, l, proj, depth, seen, at=None):
        fn = self.fn
        key = (l, tuple(proj), at)
        if key in seen or depth > self.max_depth:
            return []
        seen = seen | {key}
        if 1 <= l <= fn.arg_count:
            # parameters may also be re-assigned (mut params): include both
            outs = [Origin("param", l, proj)]
        else:
            outs = []
        defs = fn.defs().get(l, [])
        for (b, kind, payload) in defs:
            if at is not None and not self.reaches(b, at):
                continue
            if kind == "call":
                t = payload
                dp = norm_proj(t["dest"]["p"])
                if dp:
                    # call result stored into a field of l; only relevant if proj starts with it
                    if proj[:len(dp)] != dp:
                        continue
                    rest = proj[len(dp):]
                else:
                    rest = proj
                outs.extend(self._call_result(b, t, rest, depth, seen, at))
            else:
                s = payload
                lp = norm_proj(s["lhs"]["p"])
                if lp:
                    if proj[:len(lp)] == lp:
                        rest = proj[len(lp):]
                    elif lp[:len(proj)] == proj:
                        # assignment to a sub-field of what we trace: part of the value
                        rest = None
                    else:
                        continue
                else:
                    rest = proj
                if rest is None:
                    continue
                outs.extend(self._rvalue(b, s["rhs"], rest, depth, seen, at))
        if not outs:
            outs = [Origin("local", l, proj)]
        return outs

    def _call_result(self, b, t, rest, depth, seen, at=None):
        nat = b if at is not None else None
        callee = t.get("callee")
        # the Ok / Err payload of a call's Result, however it was taken apart (`?`, match, desugared combinator)
        if rest[:2] == ["dc:Ok", "f:Ok.0"]:
            rest = ["?ok"] + list(rest[2:])
        elif rest[:2] == ["dc:Err", "f:Err.0"]:
            rest = ["?err"] + list(rest[2:])
        if callee == TRY_BRANCH and rest[:2] == ["dc:Continue", "f:Continue.0"]:
            # x? : value of the Ok payload of arg0
            return self._op(t["args"][0], ["?ok"] + rest[2:], depth, seen, nat)
        if callee == TRY_BRANCH and rest[:2] == ["dc:Break", "f:Break.0"]:
            return self._op(t["args"][0], ["?err"] + rest[2:], depth, seen, nat)
        if callee in ERR_CALLEES and rest[:1] == ["?ok"]:
            return []      # `from_residual(..)` only ever yields the Err side: not a source of an Ok payload
        if callee in ("core::convert::From::from", "core::convert::Into::into") and t["args"]:
            # identity conversions are kept as calls (the rule decides); expose arg origin as well
            pass
        if callee in ("core::clone::Clone::clone", "core::ops::deref::Deref::deref",
                      "core::ops::deref::DerefMut::deref_mut", "core::borrow::Borrow::borrow",
                      "core::convert::AsRef::as_ref") and t["args"]:
            return self._op(t["args"][0], rest, depth, seen, nat)
        return [Origin("call", t, rest, b)]

    def _op(self, op, rest, depth, seen, at=None):
        if op.get("k") == "c":
            cv = const_val(op)
            return [Origin("const", cv if cv is not None else (op.get("cdef") or op.get("ty")), rest)]
        if op.get("k") in ("cp", "mv"):
            p = norm_proj(op["pl"]["p"]) + list(rest)
            return self._local(op["pl"]["l"], p, depth + 1, seen, at)
        return [Origin("unknown", None)]

    def _rvalue(self, b, rv, rest, depth, seen, at=None):
        k = rv["rv"]
        nat = b if at is not None else None
        if k == "use":
            return self._op(rv["a"], rest, depth, seen, nat)
        if k == "ref" or k == "rawptr":
            p = norm_proj(rv["pl"]["p"]) + list(rest)
            return self._local(rv["pl"]["l"], p, depth + 1, seen, nat)
        if k == "cast":
            o = self._op(rv["a"], rest, depth, seen, nat)
            return o
        if k == "agg":
            agg = rv.get("agg")
            if rest and rest[0].startswith("f:"):
                fname = rest[0][2:]
                idx = None
                if agg == "tuple" or agg == "array" or agg == "closure":
                    if fname.isdigit():
                        idx = int(fname)
                elif agg == "adt":
                    fl = rv.get("fields", [])
                    nm = fname.split(".")[-1]
                    if nm in fl:
                        idx = fl.index(nm)
                    elif nm.isdigit():
                        idx = int(nm)
                if idx is not None and idx < len(rv["ops"]):
                    return self._op(rv["ops"][idx], rest[1:], depth, seen, nat)
            if rest and rest[0] in ("?ok", "?err") and agg == "adt" and rv.get("adt") == "core::result::Result" and rv["ops"]:
                # `Ok(x)?` / a helper's `Ok(x)` seen through an inlined call: the payload itself
                if (rest[0] == "?ok") == (rv.get("variant") == "Ok"):
                    return self._op(rv["ops"][0], rest[1:], depth, seen, nat)
                return []
            if rest and rest[0].startswith("dc:") and agg == "adt":
                if rest[0][3:] == rv.get("variant"):
                    return self._rvalue(b, rv, rest[1:], depth, seen, at)
                return []
            return [Origin("agg", rv, rest, b)]
        if k == "bin":
            return [Origin("bin", rv, rest, b)]
        if k == "un":
            return [Origin("un", rv, rest, b)]
        if k == "discr":
            return [Origin("discr", rv, rest, b)]
        if k == "repeat":
            return [Origin("repeat", rv, rest, b)]
        return [Origin("unknown", rv, rest, b)]


# ---------------------------------------------------------------------------
# Effect summaries
# ---------------------------------------------------------------------------
class Effects:
    """may/must sets of *labels* per function.  A label is attached to a call
    site when `label_call(prog, caller, term)` returns it, or to a statement via
    `label_stmt`.  Summaries are propagated over the resolved call graph."""

    def __init__(self, prog, label_call, label_stmt=None, relabel=None, opaque=()):
        self.prog = prog
        self.label_call = label_call
        self.label_stmt = label_stmt
        self.relabel = relabel or {}
        self.opaque = set(opaque)   # function ids whose bodies are not descended into
        self._site_labels = {}
        self.may = {}
        self.must = {}
        self._compute()

    def site_targets(self, fn, b, t):
        tg, kind = self.prog.targets(t, fn)
        return [x for x in tg if x.id not in self.opaque], kind

    def own_labels(self, fn, b, must=False):
        """Labels attached directly at block b of fn (statements + the call itself).
        A label returned by the labeller with a leading '?' is may-only."""
        key = (fn.id, b)
        if key not in self._site_labels:
            out = set()
            blk = fn.blocks[b]
            if self.label_stmt:
                for s in blk["stmts"]:
                    out |= set(self.label_stmt(self.prog, fn, s) or ())
            t = blk["term"]
            if t and t["t"] == "call":
                out |= set(self.label_call(self.prog, fn, t) or ())
            self._site_labels[key] = ({x.lstrip("?") for x in out}, {x for x in out if not x.startswith("?")})
        return self._site_labels[key][1 if must else 0]

    def _compute(self):
        prog = self.prog
        fns = list(prog.fns.values())
        # MAY: least fixpoint
        may = {fn.id: set() for fn in fns}
        edges = {}
        for fn in fns:
            own = set()
            outs = []
            for b, blk in enumerate(fn.blocks):
                if blk["cleanup"]:
                    continue
                own |= self.own_labels(fn, b)
                t = blk["term"]
                if t and t["t"] == "call":
                    tg, kind = self.site_targets(fn, b, t)
                    outs.extend(x.id for x in tg)
            for c in prog.closures_of(fn):
                outs.append(c.id)
            may[fn.id] = own
            edges[fn.id] = outs
        changed = True
        while changed:
            changed = False
            for fn in fns:
                cur = may[fn.id]
                add = set()
                for o in edges[fn.id]:
                    add |= self._rl(fn.id, o, may[o])
                if not add <= cur:
                    cur |= add
                    changed = True
        self.may = may
        # MUST: least fixpoint (grows monotonically)
        must = {fn.id: set() for fn in fns}
        labels_all = set()
        for v in may.values():
            labels_all |= v
        changed = True
        rounds = 0
        while changed and rounds < 50:
            changed = False
            rounds += 1
            for fn in fns:
                new = self._must_of(fn, must, may[fn.id])
                if new != must[fn.id]:
                    must[fn.id] = new
                    changed = True
        self.must = must

    def _rl(self, caller_id, callee_id, labels):
        r = self.relabel.get((caller_id, callee_id))
        if not r:
            r = self.relabel.get((caller_id, "*"))
        if not r:
            return labels
        return {r.get(x, x) for x in labels}

    def block_must(self, fn, b, must):
        """Labels certainly produced when block b executes to its normal successor."""
        out = set(self.own_labels(fn, b, must=True))
        t = fn.blocks[b]["term"]
        if t and t["t"] == "call":
            tg, kind = self.site_targets(fn, b, t)
            if tg:
                inter = None
                for x in tg:
                    m = self._rl(fn.id, x.id, must.get(x.id, set()))
                    inter = set(m) if inter is None else (inter & m)
                out |= inter or set()
        return out

    def _must_of(self, fn, must, candidates):
        res = set()
        if not candidates:
            return res
        per_block = {}
        for b, blk in enumerate(fn.blocks):
            if blk["cleanup"]:
                continue
            per_block[b] = self.block_must(fn, b, must)
        for lab in candidates:
            blocks = [b for b, s in per_block.items() if lab in s]
            if not blocks:
                continue
            if not fn.success_reach_return(0, blocks):
                # every successful path passes one of them -- but only if a successful return exists at all
                if fn.success_reach_return(0, ()):
                    res.add(lab)
        return res

    # region queries --------------------------------------------------------
    def region_may(self, fn, blocks):
        out = set()
        for b in blocks:
            if fn.is_cleanup(b):
                continue
            out |= self.own_labels(fn, b)
            t = fn.blocks[b]["term"]
            if t and t["t"] == "call":
                tg, _ = self.site_targets(fn, b, t)
                for x in tg:
                    out |= self._rl(fn.id, x.id, self.may[x.id])
        return out

    def must_from(self, fn, start, label, within=None):
        """Does every successful path from block `start` to a return pass a site that must produce `label`?"""
        blocks = []
        for b, blk in enumerate(fn.blocks):
            if blk["cleanup"]:
                continue
            if label in self.block_must(fn, b, self.must):
                blocks.append(b)
        if not fn.success_reach_return(start, ()):
            return None  # no successful path at all
        return not fn.success_reach_return(start, blocks)

    def sites(self, fn, label, must=False):
        """Blocks of fn whose execution may (or must) produce label."""
        out = []
        for b, blk in enumerate(fn.blocks):
            if blk["cleanup"]:
                continue
            if must:
                if label in self.block_must(fn, b, self.must):
                    out.append(b)
            else:
                if label in self.region_may(fn, [b]):
                    out.append(b)
        return out


def line_of(fn, b):
    t = fn.blocks[b]["term"]
    if t:
        return t.get("span")
    return fn.span
