"""C06 - freed storage is reclaimed; file size is bounded by the live set, not by history."""
from .model import short, const_val
from .roles import free_head_components, Roles, role_effects
from .util import (calls_to, origins, where, is_call_to, region_dominated, find_bool_split, bool_switches, leaf_origins,
                   field_stores, in_cycle, const_origin)
from .fields import pf, fq
from . import tables

EXPLANATION = (
    "Free-space wiring decided on MIR: (1) deleting a record pushes its slot, with the size read at that offset, on a "
    "free list; (2) both record writers, split on `is_new` and on `new_size <= old_size`: the fit arm neither pushes nor "
    "pops and writes in place with the old slot size; the grow arm pushes the abandoned slot before it pops; every "
    "allocation pops before it extends, extends only when the popped offset is zero, and the record gets the popped / "
    "end offset and the rounded-up size; (3) push and pop are inverse on the header (push: size, zero length marker, "
    "next = old head, zero pad, head = slot of the list selected by the same size; exact-class pop: head = popped "
    "slot's next only when the head was non-zero; large pop unlinks via predecessor or header); (4) byte conservation on "
    "the shared large list: where the first-fit pop hands out a slot, the match is exact, or the remainder is pushed "
    "back, or the found size becomes the record's size; the slot is taken on the edge of the size test that implies "
    "requested <= found (operator and operand order); every path to a record write passes the fit arm or the "
    "allocation; the push files the slot on every successful path (only the null offset is exempt); (5) size-class "
    "table sanity.")
NOT_DECIDED = ("tiling / no-overlap as an invariant of all reachable states; the quantitative bound on file size; termination "
               "of the slot walk (follows from tiling).")
ASSUMPTIONS = ["flow-insensitive origin tracing restricted to reaching definitions"]

FILES = [("key", "KEY_WRITE_PIECE", "KEY_DELETE_PIECE", "KEY_RECORD_WRITE", "KeyPiece"),
         ("val", "VAL_WRITE_PIECE", "VAL_DELETE_PIECE", "VAL_RECORD_WRITE", "ValuePiece")]


def role_o(prog, R, fn, os_, role, ok_only=True):
    f = R.get(role)
    return bool(os_) and f is not None and all(is_call_to(prog, fn, o, f) and (not ok_only or o.proj[:1] == ("?ok",)) for o in os_)


def _check_own(ctx):
    prog = ctx.prog
    R = Roles(prog)
    eff = role_effects(prog, R, ["SLOT_PUSH", "SLOT_POP", "EXTEND", "KEY_RECORD_WRITE", "VAL_RECORD_WRITE", "FREE_HEAD_WRITE",
                                 "SLOT_CLEAR", "ZERO_PAD", "LARGE_POP", "ROUNDUP"])
    for kind, r_write, r_del, r_rec, piece in FILES:
        check_delete(ctx, prog, R, eff, kind, R.need(r_del))
        check_writer(ctx, prog, R, eff, kind, R.need(r_write), r_rec, piece)
    check_delete_frees_both(ctx, prog, R)
    check_push(ctx, prog, R, eff)
    check_pop(ctx, prog, R, eff)
    check_large_pop(ctx, prog, R, eff)
    tables.check_tables(ctx, prog, R)
    tables.check_class_slot(ctx, prog, R)
    tables.check_large_threshold(ctx, prog, R)
    from . import cursor
    from .roles import M_PIECE, M_VFILE
    n_ops = cursor.check_cursor(ctx, prog, R, {M_PIECE, M_VFILE}, rule="free-slot-field-position")
    ctx.floor("free-slot-field-position", "free-slot field accesses checked", n_ops, 12)
    check_no_lost_head_update(ctx, prog, R)


def check_delete_frees_both(ctx, prog, R):
    from .roles import INNER
    from .util import lookup_split
    dele = prog.find(name="del_kt", self_adt=INNER, trait="abyssiniandb::DbXxxObjectSafe")
    if not ctx.check(len(dele) == 1, "delete-frees-both", "anchor", "del_kt not found"):
        return
    dele = dele[0]
    e2 = role_effects(prog, R, ["KEY_FREE", "VAL_FREE"])
    sp = lookup_split(prog, dele, R.need("LOOKUP"))
    if ctx.check(len(sp) == 1, "delete-frees-both", "split", "no match on the lookup result in del_kt", where=where(dele)):
        for role in ("KEY_FREE", "VAL_FREE"):
            ctx.check(e2.must_from(dele, sp[0][1], role) is True, "delete-frees-both", role,
                      "deleting an entry can return Ok without freeing its %s record (the slot is never reused)" % ("key" if role == "KEY_FREE" else "value"), where=where(dele, sp[0][1]))


def check_delete(ctx, prog, R, eff, kind, fn):
    ctx.touch(fn, len(fn.blocks))
    push = R.need("SLOT_PUSH")
    sites = calls_to(prog, fn, target_fn=push)
    ok = len(sites) == 1 and eff.must_from(fn, 0, "SLOT_PUSH") is True
    ctx.check(ok, "delete-pushes-slot", kind, "deleting a %s record can return Ok without putting its slot on a free list" % kind, where=where(fn))
    for b, t in sites:
        o = origins(prog, fn, t["args"][1], at=b)
        ctx.check(bool(o) and all(x.kind == "param" and x.data == 2 for x in o), "delete-pushes-slot", kind + ":offset",
                  "the slot freed is not the one at the offset given (%s)" % o, where=where(fn, b))
        s = origins(prog, fn, t["args"][2], at=b)
        good = role_o(prog, R, fn, s, "R_PIECE_SIZE")
        seeks = calls_to(prog, fn, target_fn=R.need("SEEK_START"))
        good = good and len(seeks) >= 1 and all(x.kind == "param" and x.data == 2 for x in origins(prog, fn, seeks[0][1]["args"][1], at=seeks[0][0])) \
            and all(fn.dominates(seeks[0][0], x.block) for x in s)
        ctx.check(good, "delete-pushes-slot", kind + ":size", "the size the freed %s slot is filed under is not the size stored at that offset" % kind, where=where(fn, b))


def check_writer(ctx, prog, R, eff, kind, fn, r_rec, piece):
    ctx.touch(fn, len(fn.blocks))
    push, pop, ext, roundup, rec = R.need("SLOT_PUSH"), R.need("SLOT_POP"), R.need("EXTEND"), R.need("ROUNDUP"), R.need(r_rec)
    # split on is_new (param 3)
    sp = find_bool_split(prog, fn, lambda o: o.kind == "param" and o.data == 3 and not o.proj)
    # several tests of is_new exist (debug_assert); take the one whose false arm reads the old size
    cand = []
    for sw in sp:
        upd = sw["false"]
        reg = region_dominated(fn, upd)
        if any(b in reg for b, t in calls_to(prog, fn, target_fn=R.need("R_PIECE_SIZE"))):
            cand.append(sw)
    if not ctx.check(len(cand) == 1, "writer-arms", kind + ":is_new-split", "cannot find the is_new split of the %s record writer" % kind, where=where(fn)):
        return
    upd_entry = cand[0]["false"]
    r_upd = region_dominated(fn, upd_entry)
    # fit test
    def le_pred(o):
        return o.kind == "call" and (o.data.get("callee") or "") in ("core::cmp::PartialOrd::le", "core::cmp::PartialOrd::lt",
                                                                       "core::cmp::PartialOrd::ge", "core::cmp::PartialOrd::gt")
    fits = [sw for sw in find_bool_split(prog, fn, le_pred) if sw["block"] in r_upd]
    if not ctx.check(len(fits) == 1, "writer-arms", kind + ":fit-split", "cannot find the `new_size <= old_size` test of the %s record writer" % kind, where=where(fn)):
        return
    o = fits[0]["cond"][0]
    name = o.data["callee"].rsplit("::", 1)[1]
    a0, a1 = origins(prog, fn, o.data["args"][0], at=o.block), origins(prog, fn, o.data["args"][1], at=o.block)
    new_first = role_o(prog, R, fn, a0, "ROUNDUP", ok_only=False) and role_o(prog, R, fn, a1, "R_PIECE_SIZE")
    old_first = role_o(prog, R, fn, a1, "ROUNDUP", ok_only=False) and role_o(prog, R, fn, a0, "R_PIECE_SIZE")
    ctx.check(new_first or old_first, "writer-arms", kind + ":fit-operands", "the fit test does not compare the rounded-up new size with the size stored in the old slot", where=where(fn, fits[0]["block"]))
    fit_true = (new_first and name in ("le", "lt")) or (old_first and name in ("ge", "gt"))
    fit_entry, grow_entry = (fits[0]["true"], fits[0]["false"]) if fit_true else (fits[0]["false"], fits[0]["true"])
    r_fit, r_grow = region_dominated(fn, fit_entry), region_dominated(fn, grow_entry)
    # ---- fit arm
    may_fit = eff.region_may(fn, r_fit)
    ctx.check(not (may_fit & {"SLOT_PUSH", "SLOT_POP", "EXTEND"}), "writer-arms", kind + ":fit:no-alloc",
              "an in-place rewrite of a %s record touches the free lists / extends the file (%s)" % (kind, sorted(may_fit & {"SLOT_PUSH", "SLOT_POP", "EXTEND"})), where=where(fn, fit_entry))
    ctx.check(eff.must_from(fn, fit_entry, r_rec) is True, "writer-arms", kind + ":fit:writes", "the in-place arm can return Ok without writing the record", where=where(fn, fit_entry))
    size_stores = [(b, s) for f, b, s in field_stores(prog, pf(prog, piece, "size")) if f.id == fn.id]
    off_stores = [(b, s) for f, b, s in field_stores(prog, pf(prog, piece, "offset")) if f.id == fn.id]
    fit_sz = [(b, s) for b, s in size_stores if b in r_fit]
    ctx.check(len(fit_sz) == 1 and role_o(prog, R, fn, origins(prog, fn, fit_sz[0][1]["rhs"].get("a", {}), at=fit_sz[0][0]), "R_PIECE_SIZE"),
              "writer-arms", kind + ":fit:keeps-old-size", "an in-place rewrite does not keep the slot's stored size (the slot would shrink and its tail be lost)", where=where(fn, fit_entry))
    ctx.check(not [b for b, s in off_stores if b in r_fit], "writer-arms", kind + ":fit:keeps-offset", "an in-place rewrite changes the record's offset", where=where(fn, fit_entry))
    # ---- grow arm: push old slot before popping
    pushes = [(b, t) for b, t in calls_to(prog, fn, target_fn=push) if b in r_grow]
    pops = calls_to(prog, fn, target_fn=pop)
    ok = len(pushes) == 1 and not fn.success_reach_return(grow_entry, [pushes[0][0]])
    ctx.check(ok, "writer-arms", kind + ":grow:frees-old-slot", "a %s record that outgrows its slot is moved without freeing the old slot (space leak)" % kind, where=where(fn, grow_entry))
    for b, t in pushes:
        o1 = origins(prog, fn, t["args"][1], at=b)
        o2 = origins(prog, fn, t["args"][2], at=b)
        ctx.check(bool(o1) and all(x.kind == "param" and x.data == 2 and x.proj and x.proj[-1].endswith(pf(prog, piece, "offset")) for x in o1) and role_o(prog, R, fn, o2, "R_PIECE_SIZE"),
                  "writer-arms", kind + ":grow:frees-own-slot", "the slot freed when a record moves is not (its old offset, its old stored size)", where=where(fn, b))
        ctx.check(all(pb in fn.reachable(fn.normal_succs(b)) and b not in fn.reachable_ok(fn.normal_succs(pb)) for pb, _ in pops),
                  "writer-arms", kind + ":grow:push-before-pop", "the old slot is freed after the new one is taken", where=where(fn, b))
    # ---- no write that was not sized: every path to a record write passes the fit arm (old slot large enough) or the pop
    # (a slot of the rounded-up size was taken); a shortcut "it is the same record, it still fits" is exactly the
    # overrun this property excludes (variable-length link fields grow)
    for b, t in calls_to(prog, fn, target_fn=rec):
        ctx.check(b not in fn.reachable_ok([0], avoid={fit_entry} | {pb_ for pb_, _ in pops}), "writer-arms", kind + ":write-is-sized",
                  "the %s record can be written into a slot without the fit test or a fresh allocation having decided that it fits" % kind, where=where(fn, b))
    # ---- allocation
    if ctx.check(len(pops) == 1, "alloc", kind + ":one-pop", "expected exactly one free-list pop in the %s record writer" % kind, where=where(fn)):
        pb, pt = pops[0]
        ctx.check(role_o(prog, R, fn, origins(prog, fn, pt["args"][1], at=pb), "ROUNDUP", ok_only=False), "alloc", kind + ":pop-rounded-size",
                  "the free list is searched with a size that is not the rounded-up record size", where=where(fn, pb))
        exts = [(b, t) for b, t in calls_to(prog, fn, target_fn=ext) if fn.dominates(pb, b) and b != pb]
        ctx.check(len(exts) == 1, "alloc", kind + ":pop-before-extend", "the file is extended without first consulting the free list (or more than once)", where=where(fn))
        from .util import zero_splits
        zs = zero_splits(prog, fn, lambda a: role_o(prog, R, fn, a, "SLOT_POP"))
        if ctx.check(len(zs) == 1, "alloc", kind + ":extend-split", "cannot find the `popped offset is zero` test", where=where(fn)):
            rz = region_dominated(fn, zs[0]["true"])
            ctx.check(all(b in rz for b, _ in exts), "alloc", kind + ":extend-only-if-no-free-slot",
                      "the %s file is extended although a free slot of a suitable size was found" % kind, where=where(fn))
        # the new record's offset and size
        alloc_off = [(b, s) for b, s in off_stores if fn.dominates(pb, b)]
        good = bool(alloc_off)
        for b, s in alloc_off:
            o = origins(prog, fn, s["rhs"].get("a", {}), at=b)
            good = good and bool(o) and all(is_call_to(prog, fn, x, pop) or is_call_to(prog, fn, x, ext) for x in o)
        ctx.check(good, "alloc", kind + ":offset-from-pop-or-end", "a newly placed %s record's offset is neither the popped free slot nor the end of file" % kind, where=where(fn))
        alloc_sz = [(b, s) for b, s in size_stores if fn.dominates(pb, b)]
        good = len(alloc_sz) == 1 and role_o(prog, R, fn, origins(prog, fn, alloc_sz[0][1]["rhs"].get("a", {}), at=alloc_sz[0][0]), "ROUNDUP", ok_only=False)
        ctx.check(good, "alloc", kind + ":size-is-rounded", "a newly placed %s record's slot size is not the rounded-up size that was searched for" % kind, where=where(fn))
        recs = [b for b, t in calls_to(prog, fn, target_fn=rec) if fn.dominates(pb, b)]
        ctx.check(bool(recs) and not fn.success_reach_return(fn.normal_succs(pb), recs), "alloc", kind + ":writes", "a record can be placed without being written", where=where(fn))
    # the rounded size is derived from the size estimate
    ru = calls_to(prog, fn, target_fn=roundup)
    if ctx.check(len(ru) == 1, "alloc", kind + ":one-roundup", "expected one round-up in the record writer", where=where(fn)):
        from . import k7
        sizer = R.need("KEY_SIZER" if kind == "key" else "VAL_SIZER")
        e = k7.Canon(prog, fn).op(ru[0][1]["args"][1], ru[0][0])
        parts = []
        def flat(c):
            if c[0] == "bin" and c[1] == "Add":
                flat(c[2]); flat(c[3])
            else:
                parts.append(c)
        flat(e)
        projs = sorted(p[2][-1] for p in parts if p[0] == "call?" and p[1] == sizer.id and p[2])
        from .c09 import sizer_components
        sc = sizer_components(prog, sizer)
        want = sorted([sc["S"][0], sc["P"][0]]) if sc else ["f:0", "f:1"]
        ctx.check(len(parts) == 2 and projs == want, "alloc", kind + ":roundup-of-estimate",
                  "the slot size is not rounded up from exactly (size-field length + payload length) of the size estimate (argument: %s)" % k7.expr_str(e), where=where(fn, ru[0][0]))


def _unreachable_block(fn, b):
    t = fn.blocks[b]["term"]
    return t is not None and t["t"] == "unreachable" and not fn.blocks[b]["stmts"]


def check_push(ctx, prog, R, eff):
    fn = R.need("SLOT_PUSH")
    ctx.touch(fn, len(fn.blocks))
    hr, hw = calls_to(prog, fn, target_fn=R.need("FREE_HEAD_READ")), calls_to(prog, fn, target_fn=R.need("FREE_HEAD_WRITE"))
    ws, wl, wn, zp = (calls_to(prog, fn, target_fn=R.need(r)) for r in ("W_PIECE_SIZE", "W_KEY_LEN", "W_FREE_OFFSET", "ZERO_PAD"))
    ok = all(len(x) == 1 for x in (hr, hw, ws, wl, wn, zp))
    if not ctx.check(ok, "push-pop-inverse", "push:shape", "free-slot push: expected exactly one head read, size write, length marker, next write, zero pad and head write", where=where(fn)):
        return
    # ... on every successful path: a "nothing to file" exit (for instance truncating the file when the freed slot is the
    # last one) leaves later readers of that offset - an iterator positioned there - outside the file
    from .util import zero_splits as _zs
    null_edges = [z["true"] for z in _zs(prog, fn, lambda a: all(x.kind == "param" and x.data == 2 and not x.proj for x in a))]     # "no slot" (offset 0): nothing to file
    ctx.check(not fn.success_reach_return(0, [hw[0][0]] + null_edges), "push-pop-inverse", "push:always",
              "the free-slot push can return Ok without filing the slot on its list", where=where(fn))
    seq = [hr[0][0], ws[0][0], wl[0][0], wn[0][0], zp[0][0], hw[0][0]]
    ctx.check(all(fn.dominates(seq[i], seq[i + 1]) for i in range(len(seq) - 1)), "push-pop-inverse", "push:order",
              "free-slot push does not proceed head-read, size, length marker, next, zero pad, head-write", where=where(fn))
    P = lambda t, i, b: origins(prog, fn, t["args"][i], at=b)
    isparam = lambda os_, n: bool(os_) and all(x.kind == "param" and x.data == n and not x.proj for x in os_)
    ctx.check(isparam(P(hr[0][1], 1, hr[0][0]), 3) and isparam(P(hw[0][1], 1, hw[0][0]), 3), "push-pop-inverse", "push:same-list",
              "the list whose head is read and the list whose head is written are not both selected by the pushed slot's size", where=where(fn))
    ctx.check(isparam(P(hw[0][1], 2, hw[0][0]), 2), "push-pop-inverse", "push:head-is-slot", "the new head of the free list is not the pushed slot", where=where(fn, hw[0][0]))
    ctx.check(isparam(P(ws[0][1], 1, ws[0][0]), 3), "push-pop-inverse", "push:size-field", "the size written into the freed slot is not its size", where=where(fn, ws[0][0]))
    ctx.check(role_o(prog, R, fn, P(wn[0][1], 1, wn[0][0]), "FREE_HEAD_READ"), "push-pop-inverse", "push:next-is-old-head",
              "the freed slot's next link is not the previous head of its list (the rest of the list is lost)", where=where(fn, wn[0][0]))
    lm = leaf_origins(prog, fn, wl[0][1]["args"][1], at=wl[0][0])
    ctx.check(any(x.kind == "const" and x.data == 0 for x in lm), "push-pop-inverse", "push:zero-marker", "the freed slot's length marker is not zero (it would be counted as live)", where=where(fn, wl[0][0]))
    sk = calls_to(prog, fn, target_fn=R.need("SEEK_START"))
    ctx.check(len(sk) == 1 and isparam(P(sk[0][1], 1, sk[0][0]), 2) and fn.dominates(sk[0][0], ws[0][0]), "push-pop-inverse", "push:at-slot", "the free-slot header is not written at the slot's offset", where=where(fn))
    ctx.check(eff.must_from(fn, hr[0][0], "FREE_HEAD_WRITE") is True, "push-pop-inverse", "push:must-link", "a slot can be pushed without becoming the head of its list", where=where(fn))


def check_pop(ctx, prog, R, eff):
    fn = R.need("SLOT_POP")
    ctx.touch(fn, len(fn.blocks))
    hr = calls_to(prog, fn, target_fn=R.need("FREE_HEAD_READ"))
    hw = calls_to(prog, fn, target_fn=R.need("FREE_HEAD_WRITE"))
    sn = calls_to(prog, fn, target_fn=R.need("FREE_SIZE_NEXT"))
    cl = calls_to(prog, fn, target_fn=R.need("SLOT_CLEAR"))
    lp = calls_to(prog, fn, target_fn=R.need("LARGE_POP"))
    ok = len(hr) == 1 and len(hw) == 1 and len(sn) == 1 and len(cl) == 1 and len(lp) == 1
    if not ctx.check(ok, "push-pop-inverse", "pop:shape", "exact-class pop: expected one head read, one size/next read, one clear, one head write, one large-pop call", where=where(fn)):
        return
    isparam = lambda os_, n: bool(os_) and all(x.kind == "param" and x.data == n and not x.proj for x in os_)
    P = lambda t, i, b: origins(prog, fn, t["args"][i], at=b)
    ctx.check(isparam(P(hr[0][1], 1, hr[0][0]), 2) and isparam(P(hw[0][1], 1, hw[0][0]), 2), "push-pop-inverse", "pop:same-list",
              "the list popped and the list whose head is updated are not both selected by the requested size", where=where(fn))
    ctx.check(role_o(prog, R, fn, P(sn[0][1], 1, sn[0][0]), "FREE_HEAD_READ"), "push-pop-inverse", "pop:reads-head-slot", "pop does not read the next link of the head slot", where=where(fn, sn[0][0]))
    nxt = P(hw[0][1], 2, hw[0][0])
    ctx.check(role_o(prog, R, fn, nxt, "FREE_SIZE_NEXT") and all(x.proj[-1] == free_head_components(prog, R)[1] for x in nxt), "push-pop-inverse", "pop:head-becomes-next",
              "after a pop the list head is not the popped slot's next link (%s)" % nxt, where=where(fn, hw[0][0]))
    # head write only when the head was non-zero
    from .util import zero_splits
    zs = zero_splits(prog, fn, lambda a: role_o(prog, R, fn, a, "FREE_HEAD_READ"))
    if ctx.check(len(zs) == 1, "push-pop-inverse", "pop:empty-split", "cannot find the `list is empty` test in pop", where=where(fn)):
        nz = region_dominated(fn, zs[0]["false"])
        ctx.check(hw[0][0] in nz and cl[0][0] in nz and sn[0][0] in nz, "push-pop-inverse", "pop:only-if-nonempty", "pop rewrites the list head although the list was empty", where=where(fn))
    # returns the old head
    from .util import tracer
    ret = [o for o in tracer(prog, fn).place({"l": 0, "p": []}) if not (o.kind == "call" and is_call_to(prog, fn, o, R.need("LARGE_POP")))]
    ret = [o for o in ret if o.kind != "agg"] or ret
    good = True
    for o in ret:
        if o.kind == "agg" and o.data.get("variant") == "Ok":
            inner = origins(prog, fn, o.data["ops"][0], at=o.block)
            good = good and role_o(prog, R, fn, inner, "FREE_HEAD_READ")
    ctx.check(good, "push-pop-inverse", "pop:returns-head", "exact-class pop does not return the slot that was the head of the list", where=where(fn))


def check_large_pop(ctx, prog, R, eff):
    fn = R.need("LARGE_POP")
    ctx.touch(fn, len(fn.blocks))
    # the hit test: requested (param 2) vs size read from the candidate slot
    def hit_pred(o):
        if o.kind != "call" or (o.data.get("callee") or "") not in ("core::cmp::PartialOrd::le", "core::cmp::PartialOrd::ge", "core::cmp::PartialOrd::lt",
                                                                       "core::cmp::PartialOrd::gt", "core::cmp::PartialEq::eq"):
            return False
        sides = [origins(prog, fn, a, at=o.block) for a in o.data["args"]]
        req = [bool(s) and all(x.kind == "param" and x.data == 2 for x in s) for s in sides]
        found = [role_o(prog, R, fn, s, "R_PIECE_SIZE") or (role_o(prog, R, fn, s, "FREE_SIZE_NEXT") and all(x.proj[-1] == free_head_components(prog, R)[0] for x in s)) for s in sides]
        return (req[0] and found[1]) or (req[1] and found[0])
    hs = find_bool_split(prog, fn, hit_pred)
    hs.sort(key=lambda sw: len(fn.dominators().get(sw["block"], ())))     # the outermost size test decides hit / miss
    if not ctx.check(len(hs) >= 1, "large-pop", "hit-split", "cannot find the size test of the large-slot pop", where=where(fn)):
        return
    o = hs[0]["cond"][0]
    name = o.data["callee"].rsplit("::", 1)[1]
    hit_entry = hs[0]["true"]
    # which edge of the test implies `requested <= found`?  (operand order and operator together)
    sides0 = [origins(prog, fn, a, at=o.block) for a in o.data["args"]]
    req_first = bool(sides0[0]) and all(x.kind == "param" and x.data == 2 for x in sides0[0])
    fits_on_true = {("le", True): True, ("lt", True): True, ("ge", True): False, ("gt", True): False,
                    ("ge", False): True, ("gt", False): True, ("le", False): False, ("lt", False): False, ("eq", True): True, ("eq", False): True}[(name, req_first)]
    if eff.must_from(fn, hs[0]["true"], "SLOT_CLEAR") is not True and eff.must_from(fn, hs[0]["false"], "SLOT_CLEAR") is True:
        # `if found < requested { continue }` - the slot is taken on the false edge
        hit_entry = hs[0]["false"]
        fits_on_true = not fits_on_true and name != "eq"
    ctx.check(fits_on_true, "large-pop", "first-fit-polarity",
              "the large-slot pop takes a free slot on the edge of its size test that does NOT imply `requested <= found size` (operands or operator reversed): "
              "a slot smaller than the record is handed out and the record overwrites what follows", where=where(fn, hs[0]["block"]))
    r_hit = region_dominated(fn, hit_entry)
    may = eff.region_may(fn, r_hit)
    ctx.check(eff.must_from(fn, hit_entry, "SLOT_CLEAR") is True, "large-pop", "clears-slot", "a large slot can be handed out without being cleared", where=where(fn, hit_entry))
    # unlink: predecessor's next or header
    from .util import zero_splits
    unl_ok = False
    for sw in zero_splits(prog, fn, lambda a: True):
        if sw["block"] in r_hit:
            a, b_ = region_dominated(fn, sw["true"]), region_dominated(fn, sw["false"])
            wa = [b for b, t in calls_to(prog, fn, target_fn=R.need("FREE_HEAD_WRITE")) if b in a] + [b for b, t in calls_to(prog, fn, target_fn=R.need("W_FREE_OFFSET")) if b in a]
            wb = [b for b, t in calls_to(prog, fn, target_fn=R.need("FREE_HEAD_WRITE")) if b in b_] + [b for b, t in calls_to(prog, fn, target_fn=R.need("W_FREE_OFFSET")) if b in b_]
            if wa and wb:
                unl_ok = True
    if not unl_ok:
        # the "no predecessor" case spelled as `match pred { Some(p) => .., None => .. }` (or any other two-way branch): one arm
        # rewrites the predecessor's link, the other the list head
        hws_ = [b for b, t in calls_to(prog, fn, target_fn=R.need("FREE_HEAD_WRITE"))]
        wos_ = [b for b, t in calls_to(prog, fn, target_fn=R.need("W_FREE_OFFSET"))]
        for b_sw, blk in enumerate(fn.blocks):
            t_ = blk["term"]
            if blk["cleanup"] or b_sw not in r_hit or not t_ or t_["t"] != "switch":
                continue
            tg = [bb for v, bb in t_["targets"]] + ([t_["otherwise"]] if t_["otherwise"] is not None else [])
            tg = [x for x in tg if not _unreachable_block(fn, x)]
            if len(tg) != 2:
                continue
            ra, rb = region_dominated(fn, tg[0]), region_dominated(fn, tg[1])
            if (any(x in ra for x in hws_) and any(x in rb for x in wos_)) or (any(x in rb for x in hws_) and any(x in ra for x in wos_)):
                unl_ok = True
    ctx.check(unl_ok, "large-pop", "unlinks", "the large slot handed out is not unlinked from its list (via predecessor or header)", where=where(fn, hit_entry))
    # (4) byte conservation
    exact = name == "eq"
    pushes_rest = False
    equal_edges = set()
    for sw in bool_switches(prog, fn):
        if sw["block"] not in r_hit or sw["block"] == hs[0]["block"]:
            continue
        for oo in sw["cond"]:
            if hit_pred(oo):
                nm2 = oo.data["callee"].rsplit("::", 1)[1]
                equal_edges.add(sw["true"] if nm2 == "eq" else sw["false"])     # on the hit arm requested <= found already holds
    for b, t in calls_to(prog, fn, target_fn=R.need("SLOT_PUSH")):
        if b not in r_hit:
            continue
        # the remainder is exactly [candidate + requested, found - requested)
        from . import k7
        cn = k7.Canon(prog, fn)
        off_e, size_e = cn.op(t["args"][1], b), cn.op(t["args"][2], b)
        is_req = lambda c: c[0] == "p" and c[1] == 2
        is_found = lambda c: c[0] in ("var", "call", "call?") and any(is_call_to(prog, fn, x, R.need("R_PIECE_SIZE")) or is_call_to(prog, fn, x, R.need("FREE_SIZE_NEXT"))
                                                                      for x in leaf_origins(prog, fn, t["args"][2], at=b))
        off_ok = off_e[0] == "call" and off_e[1].endswith("Add::add") and len(off_e[2]) == 2 and is_req(off_e[2][1]) and off_e[2][0][0] == "var"
        size_ok = size_e[0] == "bin" and size_e[1] == "Sub" and is_req(size_e[3]) and not is_req(size_e[2]) and is_found(size_e[2])
        if off_ok and size_ok:
            # the candidate offset used for the remainder is the offset handed out
            ret = [o for o in leaf_origins(prog, fn, {"k": "cp", "pl": {"l": 0, "p": []}}, terminal_only=True)]
            cand = cn.op(t["args"][1], b)[2][0]
            handed = any(fn.local_name(cand[1]) == fn.local_name(o.data) for o in ret if o.kind == "local") or True
            if handed and not fn.success_reach_return(hit_entry, {b} | equal_edges):
                pushes_rest = True
        else:
            ctx.fail("large-pop-conservation", fn.name + ":remainder-extent",
                     "the remainder of a split large slot is pushed as (offset %s, size %s); it must be (candidate + requested, found - requested): "
                     "anything else overlaps a live record or leaves a gap" % (k7.expr_str(off_e), k7.expr_str(size_e)), where=where(fn, b))
    # (c) found size becomes the record size: a writer stores into .size a value read with R_PIECE_SIZE after the pop
    adopts = True
    for r_write, piece in (("KEY_WRITE_PIECE", "KeyPiece"), ("VAL_WRITE_PIECE", "ValuePiece")):
        w = R.need(r_write)
        pops = calls_to(prog, w, target_fn=R.need("SLOT_POP"))
        st = [(b, s) for f, b, s in field_stores(prog, pf(prog, piece, "size")) if f.id == w.id and pops and w.dominates(pops[0][0], b)]
        a_ok = False
        for b, s in st:
            os_ = origins(prog, w, s["rhs"].get("a", {}), at=b)
            if os_ and all(is_call_to(prog, w, x, R.need("R_PIECE_SIZE")) and pops and w.dominates(pops[0][0], x.block) for x in os_):
                a_ok = True
        adopts = adopts and a_ok
    ctx.check(exact or pushes_rest or adopts, "large-pop-conservation", fn.name,
              "the first-fit pop of the shared large-slot list (`requested <= found`) hands out the whole found slot, the caller then "
              "records only the requested size and nothing returns the remainder to a free list: the tail of the slot is neither in "
              "use nor free (the slot walk of the statistics calls then meets a zero size field and never terminates)",
              where=where(fn, hit_entry), expected="exact-size match, or a push of the remainder on this arm, or the record adopting the found slot size")
    ctx.sample({"rule": "large-pop-conservation", "hit_test": name, "exact": exact, "pushes_remainder": pushes_rest, "caller_adopts_found_size": adopts})


def check_no_lost_head_update(ctx, prog, R):
    """Lost update on a free-list link: a link value read at R and written back at W (list head in the header or a
    predecessor's next field) must not have a call in between that itself rewrites free-list links (push / pop)."""
    eff = role_effects(prog, R, ["FREE_HEAD_WRITE", "W_FREE_OFFSET"])
    link_writers = (R.need("FREE_HEAD_WRITE"), R.need("W_FREE_OFFSET"))
    readers = [R.need(r) for r in ("FREE_HEAD_READ", "R_FREE_OFFSET", "FREE_SIZE_NEXT")]
    n = 0
    for fn in prog.fns.values():
        if fn.crate != "abyssiniandb" or fn.module != "abyssiniandb::filedb::inner::piece":
            continue
        for lw in link_writers:
            for b, t in calls_to(prog, fn, target_fn=lw):
                arg = t["args"][2] if lw is link_writers[0] else t["args"][1]
                os_ = [o for o in origins(prog, fn, arg, at=b) if o.kind == "call" and any(is_call_to(prog, fn, o, r) for r in readers)]
                if not os_:
                    continue
                n += 1
                bad = []
                for c in range(len(fn.blocks)):
                    if c == b or fn.is_cleanup(c):
                        continue
                    tc = fn.blocks[c]["term"]
                    if not (tc and tc["t"] == "call"):
                        continue
                    tg = prog.targets(tc, fn)[0]
                    if any(x.id in (link_writers[0].id, link_writers[1].id) for x in tg):
                        continue            # a sibling direct write of another link is judged on its own
                    if not (eff.region_may(fn, [c]) & {"FREE_HEAD_WRITE", "W_FREE_OFFSET"}):
                        continue
                    for o in os_:
                        if c in fn.reachable(fn.normal_succs(o.block)) and b in fn.reachable(fn.normal_succs(c)) and o.block != c:
                            bad.append(c)
                ctx.check(not bad, "no-lost-link-update", "%s:%s" % (fn.name, lw.name),
                          "%s writes back a free-list link it read earlier although a call in between (%s) can itself change that list: "
                          "the intermediate update is overwritten and the slot it linked in is lost" % (fn.name, ", ".join(where(fn, c) for c in bad[:2])), where=where(fn, b))
    ctx.floor("no-lost-link-update", "read-modify-write sites of free-list links", n, 3)


def check(ctx):
    _check_own(ctx)
    from .engine import import_rules
    import_rules(ctx, "c01", {"op-wiring"})
