"""C11 - named maps are isolated; handles to the same map alias one state."""
import re
from itertools import combinations
from .model import short, const_val
from .roles import Roles, FILEDBINNER, INNER
from .util import where, origins, leaf_origins, tracer, calls_to, enum_switches, region_dominated, is_call_to
from . import flushpath as fp

EXPLANATION = (
    "(1) Files are per name and per kind: in each of the three opens the file name is `<name parameter><constant suffix>` "
    "pushed onto the directory parameter, the three suffixes are pairwise distinct, and the path opened is that one. "
    "(2) Registries are consistent columns: for each of the five registries of FileDbInner there is exactly one getter, "
    "one inserter and one creator; the creator opens with the name and parameters it was given and inserts under the same "
    "name; getter and inserter touch the same field; FileDb::db_map_*_with_params looks up, creates only on the "
    "not-found arm, looks up again. (3) Lookup before create: the creator call is dominated by the None arm of the "
    "first lookup. (4) Handles share state: FileDbMap and FileDb are single-field newtypes over Rc<RefCell<..>> with "
    "derived Clone, getters hand out clones of the registered handle, and the inner map state is constructed only via "
    "FileDbMap::open, which is called only by the creators. (5) Registries only grow: every BTreeMap method the lib calls "
    "on a registry is a non-removing one, so a handed-out handle is never orphaned.")
NOT_DECIDED = ("absence of cross-talk through shared buffers or the OS; byte-for-byte stability of untouched maps' files; "
               "what happens when two *processes* open the same directory.")
ASSUMPTIONS = ["the five map handle types are distinct types (enforced by the compiler; asserted from the ADT facts)"]

FILEDB = "abyssiniandb::filedb::FileDb"
KINDS = [("key", "KEY_OPEN"), ("val", "VAL_OPEN"), ("htx", "HTX_OPEN")]


def literals(bs):
    return re.findall(rb"[ -~]{2,}", bytes(bs))


def _format_parts(tmpl, fargs):
    """Decode a `format_args!` template (rustc's compact encoding: 0xC0 = next argument with default formatting,
    1..0x7F = literal of that many bytes, 0 = end) into [("name",) | ("lit", bytes) | ("?",)]; None when the encoding
    is not understood (fail closed)."""
    if tmpl is None:
        return None
    out, i, k = [], 0, 0
    while i < len(tmpl):
        c = tmpl[i]
        if c == 0:
            break
        if c == 0xC0:
            if k >= len(fargs):
                return None
            os_ = fargs[k]
            k += 1
            if os_ and all(o is not None and o.kind == "param" and o.data == 2 and not [p_ for p_ in o.proj if p_ != "deref"] for o in os_):
                out.append(("name",))
            elif os_ and len({o.data for o in os_ if o is not None and o.kind == "const" and isinstance(o.data, str)}) == 1 and all(o is not None and o.kind == "const" for o in os_):
                out.append(("lit", os_[0].data.encode()))
            else:
                out.append(("?",))
            i += 1
        elif c < 0x80:
            out.append(("lit", tmpl[i + 1:i + 1 + c]))
            i += 1 + c
        else:
            return None
    if k != len(fargs):
        return None
    return out


def _check_own(ctx):
    prog = ctx.prog
    R = Roles(prog)
    # ---------------------------------------------------------------- (1) file names
    suffixes = {}
    for kind, role in KINDS:
        fn = R.need(role)
        ctx.touch(fn)
        fmts = [(b, t) for b, t in fn.calls() if "fmt::Arguments" in (t.get("callee") or "") and t.get("from_expansion")]
        fmts = [(b, t) for b, t in fmts if any(m.endswith("format") for m in t.get("macros", []))]
        tmpl = None
        parts = None
        for b, t in fmts:
            for o in origins(prog, fn, t["args"][0], at=b):
                if o.kind == "const" and isinstance(o.data, (bytes, tuple)):
                    tmpl = bytes(o.data)
                if o.kind == "const" and isinstance(o.data, str):
                    tmpl = o.data.encode()
            # the arguments, in order: each `Argument::new_display(&x)` is looked into one level
            fargs = []
            for o in (origins(prog, fn, t["args"][1], at=b) if len(t["args"]) > 1 else []):
                if o.kind == "agg" and o.data.get("agg") == "array":
                    for op in o.data.get("ops", []):
                        ys = leaf_origins(prog, fn, op, at=o.block)
                        inner_ = []
                        for y in ys:
                            if y.kind == "call" and "fmt::rt::Argument" in (y.data.get("callee") or "") and (y.data.get("callee") or "").endswith("new_display"):
                                inner_ += leaf_origins(prog, fn, y.data["args"][0], at=y.block, terminal_only=True)
                            else:
                                inner_.append(None)
                        fargs.append(inner_)
            parts = _format_parts(tmpl, fargs)
        # file name = <map name parameter> then only constant text, which starts with '.'
        suffix = b"".join(x[1] for x in parts[1:] if x[0] == "lit") if parts else b""
        ok = len(fmts) == 1 and bool(parts) and parts[0] == ("name",) and len(parts) >= 2 and all(x[0] == "lit" for x in parts[1:]) \
            and suffix.startswith(b".") and len(suffix) >= 2
        ctx.check(ok, "file-per-name-and-kind", kind + ":name",
                  "the %s file name is not `<map name><constant suffix>` (template %r, parts %s)" % (kind, tmpl, parts), where=where(fn))
        if parts and len(suffix) >= 2:
            suffixes[kind] = suffix
        # directory parameter + push + open that path
        pushes = [(b, t) for b, t in fn.calls() if (t.get("callee") or "").endswith("PathBuf::push")]
        opens = [(b, t) for b, t in fn.calls() if (t.get("callee") or "") == "std::fs::OpenOptions::open"]
        ok = len(pushes) == 1 and len(opens) == 1
        if ok:
            pb = leaf_origins(prog, fn, pushes[0][1]["args"][0], at=pushes[0][0], terminal_only=True)
            base = [y for y in pb if y.kind == "call" and (y.data.get("callee") or "").endswith("to_path_buf")]
            ok = bool(base)
            for y in base:
                src = leaf_origins(prog, fn, y.data["args"][0], at=y.block, terminal_only=True)
                src2 = []
                for z in src:
                    if z.kind == "call" and (z.data.get("callee") or "").endswith("AsRef::as_ref"):
                        src2 += leaf_origins(prog, fn, z.data["args"][0], at=z.block, terminal_only=True)
                    else:
                        src2.append(z)
                ok = ok and bool(src2) and all(z.kind == "param" and z.data == 1 for z in src2)
            op = leaf_origins(prog, fn, opens[0][1]["args"][1], at=opens[0][0], terminal_only=True)
            ok = ok and {y.key() for y in op} == {y.key() for y in pb} and fn.dominates(pushes[0][0], opens[0][0])
        ctx.check(ok, "file-per-name-and-kind", kind + ":path", "the %s file is not opened at <directory parameter>/<file name>" % kind, where=where(fn))
    for a, b in combinations(sorted(suffixes), 2):
        ctx.check(suffixes[a] != suffixes[b], "file-per-name-and-kind", "suffix:%s|%s" % (a, b), "the %s and %s files of a map share the suffix %r" % (a, b, suffixes[a]))
    ctx.floor("file-per-name-and-kind", "file kinds with a constant suffix", len(suffixes), 3)
    ctx.sample({"suffixes": {k: v.decode() for k, v in suffixes.items()}})

    # ---------------------------------------------------------------- (2) registry columns
    adt = prog.adts.get(FILEDBINNER)
    regs = [f for f in adt["variants"][0]["fields"] if f["ty"].startswith("alloc::collections::btree::map::BTreeMap<") and "FileDbMap<" in f["ty"]] if adt else []
    ctx.floor("registry-column", "registries", len(regs), 5)
    vtypes = [re.search(r"FileDbMap<([^>]+)>", f["ty"]).group(1) for f in regs]
    ctx.check(len(set(vtypes)) == len(vtypes), "registry-column", "distinct-types", "two registries hold the same map type")
    inner_fns = [f for f in prog.fns.values() if f.impl_self_adt == FILEDBINNER and f.kind == "AssocFn"]

    def fields_touched(fn):
        out = set()
        for blk in fn.blocks:
            for s in blk["stmts"]:
                if s["s"] == "assign":
                    r = s["rhs"]
                    pls = [r["pl"]] if r["rv"] in ("ref", "discr") else ([r["a"]["pl"]] if r["rv"] == "use" and r["a"].get("k") in ("cp", "mv") else [])
                    for p in pls:
                        for e in p["p"]:
                            if e.startswith("f:" + FILEDBINNER + "."):
                                out.add(e.rsplit(".", 1)[1])
        return out
    open_fn = prog.find(name="open", self_adt=fp.FILEDBMAP)
    open_fn = open_fn[0] if len(open_fn) == 1 else None
    ctx.check(open_fn is not None, "registry-column", "FileDbMap::open", "FileDbMap::open not found")
    tops = [f for f in prog.fns.values() if f.impl_self_adt == FILEDB and f.name.endswith("_with_params")]
    used_tops = set()
    for f, vt in zip(regs, vtypes):
        col = f["name"]
        getters = [g for g in inner_fns if fields_touched(g) == {col} and any((t.get("callee") or "").endswith("BTreeMap::<K, V, A>::get") for b, t in g.calls())]
        is_insert = lambda t: (t.get("callee") or "").endswith("BTreeMap::<K, V, A>::insert")
        # an inserter is a method that only touches this registry and inserts into it; the creator is the method that
        # opens the map and (itself or through such a wrapper) inserts the handle.  Both spellings are analysed as one
        # body: the creator with the wrapper written out.
        wrappers = [g_ for g_ in inner_fns if fields_touched(g_) == {col} and any(is_insert(t) for b, t in g_.calls())
                    and not (open_fn is not None and calls_to(prog, g_, target_fn=open_fn))]
        if not ctx.check(len(getters) == 1, "registry-column", col + ":getter+inserter",
                         "registry %s has %d getter(s) (a getter touching exactly this field)" % (col, len(getters))):
            continue
        g = getters[0]
        ctx.touch(g)
        # getter: get(name) cloned
        gb, gt = [(b, t) for b, t in g.calls() if (t.get("callee") or "").endswith("::get")][0]
        k = leaf_origins(prog, g, gt["args"][1], at=gb, terminal_only=True)
        cloned = any((t.get("callee") or "").endswith("Option::<&T>::cloned") or (t.get("callee") or "").endswith("::cloned") for b, t in g.calls())
        ctx.check(bool(k) and all(y.kind == "param" and y.data == 2 for y in k) and cloned, "registry-column", col + ":getter",
                  "the getter of %s does not return a clone of the handle registered under its name argument" % col, where=where(g))
        wrapper_ids = {w.id for w in wrappers}
        from .inline import virtual_inline
        creators = []
        for c_ in inner_fns:
            if open_fn is None or not calls_to(prog, c_, target_fn=open_fn):
                continue
            cv = virtual_inline(prog, c_, lambda f_: f_.id in wrapper_ids)
            if any(is_insert(t) and col in _fields_of_receiver(prog, cv, b, t) for b, t in cv.calls()):
                creators.append((c_, cv))
        ctx.check(len(wrappers) <= 1, "registry-column", col + ":inserter", "registry %s has %d separate inserter methods" % (col, len(wrappers)))
        if not ctx.check(len(creators) == 1, "registry-column", col + ":creator", "registry %s has %d creators (methods that open a map and insert it into this registry)" % (col, len(creators))):
            continue
        c, cv = creators[0]
        ctx.touch(c)
        ok = False
        if open_fn is not None:
            os_ = calls_to(prog, cv, target_fn=open_fn)
            isites = [(b, t) for b, t in cv.calls() if is_insert(t) and col in _fields_of_receiver(prog, cv, b, t)]
            ok = len(os_) == 1 and len(isites) == 1 and cv.dominates(os_[0][0], isites[0][0])
            if ok:
                ob, ot = os_[0]
                ok = vt in (ot.get("callee_full") or "") or vt in " ".join(ot.get("gargs", []))
                nm = leaf_origins(prog, cv, ot["args"][1], at=ob, terminal_only=True)
                pr = leaf_origins(prog, cv, ot["args"][2], at=ob, terminal_only=True)
                dr = leaf_origins(prog, cv, ot["args"][0], at=ob, terminal_only=True)
                ok = ok and all(y.kind == "param" and y.data == 2 for y in nm) and bool(nm) and all(y.kind == "param" and y.data == 3 for y in pr) and bool(pr)
                ok = ok and any(y.kind == "call" and (y.data.get("callee") or "").endswith("FileDbInner::path") for y in dr)
                inm = _strip_to_string(prog, cv, leaf_origins(prog, cv, isites[0][1]["args"][1], at=isites[0][0], terminal_only=True))
                ich = leaf_origins(prog, cv, isites[0][1]["args"][2], at=isites[0][0], terminal_only=True)
                ok = ok and bool(inm) and all(y.kind == "param" and y.data == 2 for y in inm) and bool(ich) and all(is_call_to(prog, cv, y, open_fn) for y in ich)
        ctx.check(ok, "registry-column", col + ":creator-wiring",
                  "the creator of %s does not open FileDbMap<%s> in the database directory with the name and parameters it was given and register it under the same name" % (col, short(vt)), where=where(c))
        # top-level method: lookup, create on None, lookup
        tps = [t for t in tops if calls_to(prog, t, target_fn=c)]
        if not ctx.check(len(tps) == 1, "registry-column", col + ":api", "registry %s is created from %d FileDb methods" % (col, len(tps))):
            continue
        t = tps[0]
        used_tops.add(t.id)
        ctx.touch(t)
        gs = calls_to(prog, t, target_fn=g)
        cs = calls_to(prog, t, target_fn=c)
        ok = len(gs) == 2 and len(cs) == 1
        if ok:
            first = min(gs, key=lambda x: len(t.dominators().get(x[0], ())))
            second = max(gs, key=lambda x: len(t.dominators().get(x[0], ())))
            ok = t.dominates(first[0], cs[0][0]) and t.dominates(cs[0][0], second[0])
            for (bb, tt) in gs:
                nm = leaf_origins(prog, t, tt["args"][1], at=bb, terminal_only=True)
                ok = ok and bool(nm) and all(y.kind == "param" and y.data == 2 for y in nm)
            nm = leaf_origins(prog, t, cs[0][1]["args"][1], at=cs[0][0], terminal_only=True)
            pr = leaf_origins(prog, t, cs[0][1]["args"][2], at=cs[0][0], terminal_only=True)
            ok = ok and bool(nm) and all(y.kind == "param" and y.data == 2 for y in nm) and bool(pr) and all(y.kind == "param" and y.data == 3 for y in pr)
        ctx.check(ok, "registry-column", col + ":api-wiring", "%s does not look up, create with (name, params), look up again" % t.name, where=where(t))
        # (3) lookup before create
        if ok:
            none_dom = False
            for sw in enum_switches(prog, t):
                if sw["src"] and all(y.kind == "call" and y.block == first[0] for y in sw["src"]):
                    some_e = sw["targets"].get(1)
                    none_e = sw["targets"].get(0, sw["otherwise"])
                    if some_e is not None and none_e is not None:
                        none_dom = t.dominates(none_e, cs[0][0]) and not t.dominates(some_e, cs[0][0])
                        # the Some arm returns the registered handle
                        ret_ok = cs[0][0] not in t.reachable_ok(some_e)
                        none_dom = none_dom and ret_ok
            ctx.check(none_dom, "lookup-before-create", col,
                      "%s can open the map's files again although a handle for that name is already registered (two states for one map)" % t.name, where=where(t, cs[0][0]))
    ctx.check(len(used_tops) == len(regs), "registry-column", "api-one-per-registry", "FileDb *_with_params methods and registries are not in one-to-one correspondence")
    # the plain db_map_T(name) methods forward to the *_with_params variant with default parameters
    for t in prog.fns.values():
        if t.impl_self_adt == FILEDB and t.name.startswith("db_map_") and not t.name.endswith("_with_params"):
            w = [x for x in tops if x.name == t.name + "_with_params"]
            ok = len(w) == 1 and len(calls_to(prog, t, target_fn=w[0])) == 1
            if ok:
                bb, tt = calls_to(prog, t, target_fn=w[0])[0]
                nm = leaf_origins(prog, t, tt["args"][1], at=bb, terminal_only=True)
                ok = bool(nm) and all(y.kind == "param" and y.data == 2 for y in nm)
            ctx.check(ok, "registry-column", t.name + ":forwards", "%s does not forward its name to %s_with_params" % (t.name, t.name), where=where(t))

    # ---------------------------------------------------------------- (2b) registries only grow
    # A registered handle must stay registered for the life of the database handle: if an entry could be removed or
    # replaced while a caller still holds the old handle, a later lookup would open the same files a second time.
    NON_REMOVING = {"new", "get", "insert", "keys", "values", "iter", "contains_key", "len", "is_empty", "get_key_value",
                    "first_key_value", "last_key_value", "range"}
    reg_calls = 0
    for fn in prog.fns.values():
        if fn.crate != "abyssiniandb":
            continue
        for b, t in fn.calls():
            cal = t.get("callee") or ""
            ga = t.get("gargs") or []
            on_registry = any("FileDbMap<" in g for g in ga[1:2]) and "btree::map::BTreeMap" in cal and ga and ga[0].endswith("String")
            if not on_registry and "btree::map::BTreeMap" in cal and t.get("args") and not fn.is_cleanup(b):
                # a generic helper (`fn f<V>(m: &mut BTreeMap<String, V>)`) inlined into its caller: decide by the receiver
                ro = leaf_origins(prog, fn, t["args"][0], at=b)
                cols = {FILEDBINNER.rsplit("::", 1)[-1] + "." + f_["name"] for f_ in regs}
                on_registry = bool(ro) and any(any(p_.startswith("f:") and p_[2:].rsplit("::", 1)[-1] in cols for p_ in o.proj) for o in ro)
            via_mem = cal.startswith("core::mem::") and any(g.startswith("alloc::collections::btree::map::BTreeMap<") and "FileDbMap<" in g for g in ga)
            if on_registry:
                reg_calls += 1
                meth = cal.rsplit("::", 1)[1]
                ctx.check(meth in NON_REMOVING, "registry-grow-only", "%s:%s" % (fn.name, meth),
                          "%s calls BTreeMap::%s on a map registry: a registered handle can be dropped from the registry while callers still hold it, and the next lookup opens the files a second time" % (short(fn.id), meth),
                          where=where(fn, b))
            if via_mem:
                reg_calls += 1
                ctx.check(False, "registry-grow-only", "%s:%s" % (fn.name, cal.rsplit("::", 1)[1]),
                          "%s moves a whole map registry with %s" % (short(fn.id), cal), where=where(fn, b))
        # whole-registry overwrite outside the constructor
        for col in [f["name"] for f in regs]:
            for bb, blk in enumerate(fn.blocks):
                for st in blk["stmts"]:
                    if st["s"] == "assign" and st["lhs"]["p"] and st["lhs"]["p"][-1] == "f:" + FILEDBINNER + "." + col:
                        ctx.check(False, "registry-grow-only", "%s:assign:%s" % (fn.name, col),
                                  "%s replaces the registry %s" % (short(fn.id), col), where=where(fn, bb))
    ctx.floor("registry-grow-only", "BTreeMap calls on map registries", reg_calls, 15)
    ctx.ok("registry-grow-only", "all-sites", "every BTreeMap call on a registry is one of %s" % sorted(NON_REMOVING))

    # ---------------------------------------------------------------- (4) shared state
    for adt_id in (fp.FILEDBMAP, FILEDB):
        a = prog.adts.get(adt_id)
        ok = a is not None and len(a["variants"][0]["fields"]) == 1 and a["variants"][0]["fields"][0]["ty"].startswith("alloc::rc::Rc<core::cell::RefCell<")
        ctx.check(ok, "handles-share-state", short(adt_id) + ":rc-refcell", "%s is not a single-field newtype over Rc<RefCell<..>>" % short(adt_id))
        cl = [i for i in prog.impls if i["crate"] == "abyssiniandb" and i.get("self_adt") == adt_id and i.get("trait") == "core::clone::Clone"]
        ctx.check(len(cl) == 1 and cl[0]["from_expansion"], "handles-share-state", short(adt_id) + ":derived-clone",
                  "Clone for %s is hand-written (a clone might no longer alias the same state)" % short(adt_id))
    io = R.need("INNER_OPEN")
    callers = {f.id for f, b in prog.callers().get(io.id, [])}
    ctx.check(open_fn is not None and callers == {open_fn.id}, "handles-share-state", "inner-open-callers",
              "the inner map state is constructed from %s, expected only FileDbMap::open" % sorted(short(c) for c in callers))
    if open_fn is not None:
        oc = {f.id for f, b in prog.callers().get(open_fn.id, [])}
        exp = {c.id for c in inner_fns if c.name.startswith("create_db_map")}
        ctx.check(oc == exp and len(exp) == 5, "handles-share-state", "map-open-callers", "FileDbMap::open is called from %s, expected exactly the five creators" % sorted(short(c) for c in oc))
    aggs = []
    for fn in prog.fns.values():
        if fn.crate != "abyssiniandb":
            continue
        for b, blk in enumerate(fn.blocks):
            for s in blk["stmts"]:
                if s["s"] == "assign" and s["rhs"]["rv"] == "agg" and s["rhs"].get("adt") == INNER:
                    aggs.append(fn.id)
    ctx.check(set(aggs) == {io.id}, "handles-share-state", "inner-constructed-once", "FileDbXxxInner is constructed in %s" % sorted(set(short(a) for a in aggs)))


def _fields_of_receiver(prog, fn, b, t):
    """names of FileDbInner fields the receiver (argument 0) of a call refers to"""
    out = set()
    for o in origins(prog, fn, t["args"][0], at=b):
        for p_ in o.proj:
            if p_.startswith("f:") and p_.rsplit(".", 1)[0].endswith("FileDbInner"):
                out.add(p_.rsplit(".", 1)[1])
    return out


def _strip_to_string(prog, fn, os_):
    out = []
    for o in os_:
        if o.kind == "call" and (o.data.get("callee") or "").rsplit("::", 1)[-1] in ("to_string", "to_owned", "into", "from", "clone") and o.data.get("args"):
            out.extend(_strip_to_string(prog, fn, leaf_origins(prog, fn, o.data["args"][0], at=o.block, terminal_only=True)))
        else:
            out.append(o)
    return out


def check(ctx):
    _check_own(ctx)
