"""C13 - opening files as the wrong key type / with foreign signatures is refused."""
from itertools import combinations
from .model import Tracer, short, const_val
from .roles import Roles, role_effects, io_effects, WRITE_ATOMS
from .util import (calls_to, origins, bool_switches, find_bool_split, diverges, where, is_call_to,
                   const_origin, region_dominated)

EXPLANATION = (
    "Structural necessary conditions of C13, decided on MIR: (1) in each of the three open routines the header "
    "checker is must-called on the existing-file arm before the Ok return, no write-class effect precedes it, and "
    "inside it two whole-array [u8;8] equality tests each guard a diverging edge (magic read at offset 0 vs the "
    "same constant the header writer emits first; next 8 bytes vs the signature parameter); the checker has no "
    "write effect; (2) the signature handed to all three opens originates from <KT as DbMapKeyType>::signature(); "
    "(3) the evaluated signatures of all DbMapKeyType impls are pairwise distinct; (4) creating the hash-table file "
    "always sets its length on disk, so that a new, still unflushed map is not an empty file for a second open.")
NOT_DECIDED = ("that every single-byte mutation is caught at run time (follows from whole-array comparison, which is "
               "checked); behaviour on truncated files; byte-for-byte file equality after a rejected open.")
ASSUMPTIONS = ["panic!/assert! diverge; rabuf::RaBuf<T> is only instantiated with std::fs::File (checked)"]

KINDS = [("key", "KEY_OPEN", "HDR_CHECK_KEY", "HDR_INIT_KEY"),
         ("val", "VAL_OPEN", "HDR_CHECK_VAL", "HDR_INIT_VAL"),
         ("htx", "HTX_OPEN", "HDR_CHECK_HTX", "HDR_INIT_HTX")]
ARR_EQ = ("core::cmp::PartialEq::eq", "core::cmp::PartialEq::ne")


def signature_of(prog, fn):
    """Evaluate the [u8;8] an `fn signature()` body returns (constant interpreter over its MIR)."""
    tr = Tracer(prog, fn)
    os_ = tr.place({"l": 0, "p": []})
    c = const_origin(os_)
    if isinstance(c, (bytes, tuple)):
        return bytes(c)
    # array aggregate of constants
    if len(os_) == 1 and os_[0].kind == "agg" and os_[0].data.get("agg") == "array":
        vals = [const_val(x) for x in os_[0].data["ops"]]
        if all(isinstance(v, int) for v in vals):
            return bytes(vals)
    return None


def zero_split(prog, R, fn):
    """The split on `file_length == 0` (any spelling) where file_length comes from EXTEND (seek to end)."""
    from .util import zero_splits
    ext = R.need("EXTEND")
    return zero_splits(prog, fn, lambda a: all(is_call_to(prog, fn, x, ext) for x in a))


def _check_own(ctx):
    prog = ctx.prog
    R = Roles(prog)
    io = io_effects(prog)
    n, bad = prog.check_rabuf_instantiation()
    ctx.check(n > 0 and not bad, "assumption", "rabuf-instantiation",
              "rabuf::RaBuf is instantiated with %s, not only std::fs::File" % sorted(bad))

    # ---- clause 3: signatures pairwise distinct --------------------------------
    sig_impls = [prog.fns[i] for i in prog.trait_impls["abyssiniandb::DbMapKeyType"].get("signature", []) if i in prog.fns]
    sigs = {}
    for fn in sig_impls:
        ctx.touch(fn)
        v = signature_of(prog, fn)
        nm = short(fn.impl_self or "?")
        if ctx.check(v is not None and len(v) == 8, "sig-const", nm,
                     "signature() of %s is not a compile-time [u8; 8] constant the interpreter can evaluate" % nm,
                     where=where(fn), detail=repr(v)):
            sigs[nm] = v
    ctx.floor("sig-distinct", "DbMapKeyType impls", len(sig_impls), 5)
    for a, b in combinations(sorted(sigs), 2):
        ctx.check(sigs[a] != sigs[b], "sig-distinct", "%s|%s" % (a, b),
                  "key types %s and %s declare the same type signature %r: files of one open silently as the other"
                  % (a, b, sigs[a]), where="impl DbMapKeyType::signature for %s and %s" % (a, b),
                  detail="%r != %r" % (sigs[a], sigs[b]))
    ctx.sample({"signatures": {k: v.decode("latin1") for k, v in sigs.items()}})

    # ---- clause 1: both signatures compared in all three files before use -----
    labels = [k[2] for k in KINDS] + [k[3] for k in KINDS]
    eff = role_effects(prog, R, labels)
    magics = {}
    n_cmp = 0
    for kind, r_open, r_check, r_init in KINDS:
        fopen = ctx.anchor(r_open, lambda p, r=r_open: R.need(r))
        fchk = ctx.anchor(r_check, lambda p, r=r_check: R.need(r))
        finit = ctx.anchor(r_init, lambda p, r=r_init: R.need(r))
        if not (fopen and fchk and finit):
            continue
        ctx.touch(fopen)
        ctx.touch(fchk)
        ctx.touch(finit)
        splits = zero_split(prog, R, fopen)
        if not ctx.check(len(splits) == 1, "open-split", kind,
                         "cannot find the unique `file_length.is_zero()` split in %s (found %d)" % (fopen.id, len(splits)),
                         where=where(fopen)):
            continue
        sw = splits[0]
        nonzero, zero = sw["false"], sw["true"]
        m = eff.must_from(fopen, nonzero, r_check)
        ctx.check(m is True, "check-must", kind,
                  "an existing %s file can be opened successfully without passing the header check" % kind,
                  where=where(fopen, nonzero), expected="every successful path of the non-empty-file arm calls %s" % fchk.name)
        if kind == "htx":
            # a map that was created but not flushed yet must already be a non-empty file for the NEXT open (through another
            # handle / key type): of the three files only .htx gets its length set at creation (OS-level set_len); without
            # it all three are still 0 bytes on disk and a second open under a different key type is taken for "new"
            ctx.check(io.must_from(fopen, zero, "OS_SETLEN") is True,
                      "check-must", "htx:creation-sets-length",
                      "creating the hash-table file does not always set its length on disk before returning: an unflushed new map is still an empty file "
                      "and a second open with a different key type is not refused", where=where(fopen, zero))
        sites = [b for b, t in calls_to(prog, fopen, target_fn=fchk)]
        for b in sites:
            doms = [d for d in fopen.dominators().get(b, ()) if d != b]
            w = io.region_may(fopen, doms) & WRITE_ATOMS
            ctx.check(not w, "no-write-before-check", kind,
                      "write-class effect %s can happen before the header of an existing %s file is checked" % (sorted(w), kind),
                      where=where(fopen, b))
            # signature parameter is passed on unchanged
            t = fopen.term(b)
            o = origins(prog, fopen, t["args"][1], at=b)
            ctx.check(all(x.kind == "param" and x.data == 3 for x in o) and o, "sig-forwarded", kind + ":check",
                      "the signature given to the header check of the %s file is not the open routine's signature parameter (%s)" % (kind, o),
                      where=where(fopen, b))
        for b, t in calls_to(prog, fopen, target_fn=finit):
            o = origins(prog, fopen, t["args"][1], at=b)
            ctx.check(all(x.kind == "param" and x.data == 3 for x in o) and o, "sig-forwarded", kind + ":init",
                      "the signature written into a new %s file is not the open routine's signature parameter (%s)" % (kind, o),
                      where=where(fopen, b))
        # the checker itself is read-only
        w = io.may[fchk.id] & WRITE_ATOMS
        ctx.check(not w, "check-readonly", kind, "the header check of the %s file has write-class effects %s" % (kind, sorted(w)),
                  where=where(fchk))
        # the writer's first write is the magic
        first_magic = None
        wa = calls_to(prog, finit, callee="std::io::Write::write_all")
        wa.sort(key=lambda x: len(finit.dominators().get(x[0], ())))
        if wa:
            o = origins(prog, finit, wa[0][1]["args"][1], at=wa[0][0])
            c = const_origin(o)
            if isinstance(c, (bytes, tuple)):
                first_magic = bytes(c)
        ctx.check(first_magic is not None and len(first_magic) == 8, "init-magic", kind,
                  "the first write of the %s header writer is not an 8-byte constant" % kind, where=where(finit))
        magics[kind] = first_magic
        # inside the checker: two array comparisons guarding a diverging edge
        cmps = []
        for sw2 in bool_switches(prog, fchk):
            for o in sw2["cond"]:
                if o.kind == "call" and o.data.get("callee") in ARR_EQ and o.data["gargs"] and o.data["gargs"][0] == "[u8; 8]":
                    neq_target = sw2["false"] if o.data["callee"].endswith("::eq") else sw2["true"]
                    cmps.append((sw2["block"], o, neq_target))
        cmps.sort(key=lambda x: len(fchk.dominators().get(x[0], ())))
        n_cmp += len(cmps)
        if not ctx.check(len(cmps) >= 2, "two-comparisons", kind,
                         "the %s header check has %d whole-array [u8;8] comparisons, needs 2 (magic and type signature)" % (kind, len(cmps)),
                         where=where(fchk)):
            continue
        got_magic = got_sig = False
        for idx, (b, o, neq) in enumerate(cmps):
            ctx.check(diverges(fchk, neq), "mismatch-diverges", "%s:#%d" % (kind, idx),
                      "a signature mismatch in the %s header check does not stop the open (the unequal edge reaches a successful return)" % kind,
                      where=where(fchk, b))
            sides = [origins(prog, fchk, a) for a in o.data["args"]]
            consts = [const_origin(s) for s in sides]
            params = [all(x.kind == "param" and x.data == 2 for x in s) and bool(s) for s in sides]
            for c in consts:
                if isinstance(c, (bytes, tuple)) and bytes(c) == first_magic:
                    got_magic = True
            if any(params):
                got_sig = True
        ctx.check(got_magic, "magic-agrees", kind,
                  "the %s header check does not compare the leading bytes with the constant the writer emits (%r)" % (kind, first_magic),
                  where=where(fchk))
        ctx.check(got_sig, "typesig-compared", kind,
                  "the %s header check does not compare stored bytes with the type-signature parameter" % kind, where=where(fchk))
        # first comparison dominates the second, and reading starts at offset 0
        ctx.check(fchk.dominates(cmps[0][0], cmps[1][0]), "order", kind,
                  "the two signature comparisons of the %s header check are not sequential" % kind, where=where(fchk))
        ctx.sample({"file": kind, "open": fopen.id, "check": fchk.id, "nonzero_arm_bb": nonzero,
                    "magic": (first_magic or b"").decode("latin1"), "comparisons": len(cmps)})
    ctx.floor("two-comparisons", "array comparisons in 3 header checks", n_cmp, 6)
    ks = [k for k in magics if magics[k]]
    for a, b in combinations(ks, 2):
        ctx.check(magics[a] != magics[b], "magic-distinct", "%s|%s" % (a, b),
                  "the %s and %s files carry the same leading signature %r" % (a, b, magics[a]))

    # ---- clause 2: KT::signature() reaches all three opens ---------------------
    inner_open = ctx.anchor("INNER_OPEN", lambda p: R.need("INNER_OPEN"))
    n_sig = 0
    if inner_open:
        ctx.touch(inner_open)
        for kind, r_open, _, _ in KINDS:
            fopen = R.get(r_open)
            if not fopen:
                continue
            sites = calls_to(prog, inner_open, target_fn=fopen)
            ctx.check(len(sites) == 1, "sig-origin", kind + ":site", "expected exactly one call of %s in the map open, found %d" % (fopen.name, len(sites)),
                      where=where(inner_open))
            for b, t in sites:
                o = origins(prog, inner_open, t["args"][2], at=b)
                good = bool(o) and all(x.kind == "call" and x.data.get("callee") == "abyssiniandb::DbMapKeyType::signature"
                                       and x.data.get("gargs") == ["KT"] for x in o)
                n_sig += 1 if good else 0
                ctx.check(good, "sig-origin", kind,
                          "the type signature given to the %s file open does not originate from <KT as DbMapKeyType>::signature() (%s)" % (kind, o),
                          where=where(inner_open, b))
    ctx.floor("sig-origin", "opens receiving KT::signature()", n_sig, 3)


def check(ctx):
    _check_own(ctx)
    from .engine import import_rules
    import_rules(ctx, "c02", {"open-never-destroys"})
