"""C10 - typed integer and string keys are faithful."""
import re
from itertools import combinations
from .model import short, const_val
from .util import where, tracer, origins, leaf_origins, is_call_to

EXPLANATION = (
    "Codec-pair agreement (K4) over the key-type modules: (1) for every key type and integer type the by-value and the "
    "by-reference conversion reach the same encoder with the same shape, and `From<Key> for int` delegates to "
    "`From<&Key> for int`; (2) encoder and decoder are partners by table (to_le_bytes<->from_le_bytes, "
    "to_be_bytes<->from_be_bytes, vu64::encode<->vu64::decode) on the same integer type; (3) key identity is byte identity: "
    "each key type is a one-field newtype over Vec<u8> whose PartialEq/Eq/PartialOrd/Ord/Hash are derived, as_bytes "
    "returns that field, from_bytes copies its argument, cmp_u8 compares the field's bytes with the argument (the "
    "variable-length type: both sides through its own decoder), and hash_value is not overridden.")
NOT_DECIDED = ("that the codec pairs are inverse for all 2^64 values (a fact about std / vu64); the 1..9 byte steps of vu64; "
               "that iteration returns exactly the stored bytes (C04/C01).")
ASSUMPTIONS = ["std's to_*_bytes / from_*_bytes and vu64::encode / decode are mutually inverse"]

KT_TRAIT = "abyssiniandb::DbMapKeyType"
PARTNER = {"to_le_bytes": "from_le_bytes", "to_be_bytes": "from_be_bytes", "encode": "decode"}
ENCODERS = set(PARTNER)
DECODERS = set(PARTNER.values())
INTS = ("u64", "i64", "u32", "i32", "u16", "i16", "u8", "i8", "u128", "i128", "usize", "isize")


def codec_calls(fn, names):
    out = []
    for b, t in fn.calls():
        c = t.get("callee") or ""
        nm = c.rsplit("::", 1)[-1]
        if nm in names and (c.startswith("core::num::") or c.startswith("vu64::")):
            ity = None
            m = re.search(r"<impl (\w+)>", c)
            if m:
                ity = m.group(1)
            out.append((nm, ity, c))
    return out


def _check_own(ctx):
    prog = ctx.prog
    kts = {}
    for i in prog.impls:
        if i["crate"] == "abyssiniandb" and i.get("trait") == KT_TRAIT:
            kts[i["self"]] = i
    ctx.floor("key-types", "DbMapKeyType impls", len(kts), 5)
    # index From impls:  (self type, from type) -> fn
    froms = {}
    for i in prog.impls:
        if i["crate"] != "abyssiniandb" or i.get("trait") != "core::convert::From":
            continue
        m = re.match(r"^<(.+) as core::convert::From<(.+)>>$", i.get("trait_full", ""))
        if not m:
            continue
        for it in i["items"]:
            if it["name"] == "from" and it["id"] in prog.fns:
                froms[(m.group(1), m.group(2))] = prog.fns[it["id"]]
    n_pairs = n_codec = 0
    for kt in sorted(kts):
        nm = short(kt)
        enc_of = {}
        for ity in INTS:
            byval, byref = froms.get((kt, ity)), froms.get((kt, "&" + ity))
            if byval is None and byref is None:
                continue
            if not ctx.check(byval is not None and byref is not None, "by-value==by-reference", "%s:%s:both" % (nm, ity),
                             "%s converts from %s only %s" % (nm, ity, "by value" if byval else "by reference")):
                continue
            ctx.touch(byval)
            ctx.touch(byref)
            n_pairs += 1
            ev, er = codec_calls(byval, ENCODERS), codec_calls(byref, ENCODERS)
            shape = lambda f: sorted((t.get("callee") or "") for b, t in f.calls() if not (t.get("callee") or "").startswith("core::ops::deref"))
            ctx.check(len(ev) == 1 and ev == er and shape(byval) == shape(byref), "by-value==by-reference", "%s:%s" % (nm, ity),
                      "%s::from(%s) and %s::from(&%s) do not encode the same way (%s vs %s): the same integer would address two different entries"
                      % (nm, ity, nm, ity, [e[:2] for e in ev], [e[:2] for e in er]), where=where(byval))
            if ev:
                ctx.check(ev[0][1] in (None, ity), "codec-pair", "%s:%s:encoder-type" % (nm, ity), "%s encodes %s with the %s encoder" % (nm, ity, ev[0][1]), where=where(byval))
                enc_of[ity] = ev[0][0]
            # both feed the integer argument itself
            for f in (byval, byref):
                for b, t in f.calls():
                    if (t.get("callee") or "").rsplit("::", 1)[-1] in ENCODERS:
                        o = origins(prog, f, t["args"][0], at=b)
                        ctx.check(bool(o) and all(x.kind == "param" and x.data == 1 for x in o), "by-value==by-reference", "%s:%s:encodes-argument:%s" % (nm, ity, "ref" if f is byref else "val"),
                                  "%s does not encode its argument (%s)" % (f.id, o), where=where(f, b))
        for ity in INTS:
            dref, dval = froms.get((ity, "&" + kt)), froms.get((ity, kt))
            if dref is None and dval is None:
                continue
            if ctx.check(dref is not None and dval is not None, "codec-pair", "%s:%s:decoders" % (nm, ity), "only one of From<%s>/From<&%s> for %s exists" % (nm, nm, ity)):
                ctx.touch(dref)
                ctx.touch(dval)
                sites = [(b, t) for b, t in dval.calls() if prog.targets(t, dval)[0] and prog.targets(t, dval)[0][0].id == dref.id]
                ctx.check(len(sites) == 1 and not dval.success_reach_return(0, [sites[0][0]]) and not codec_calls(dval, DECODERS), "codec-pair", "%s:%s:by-value-delegates" % (nm, ity),
                          "From<%s> for %s does not delegate to From<&%s>" % (nm, ity, nm), where=where(dval))
                dc = codec_calls(dref, DECODERS)
                n_codec += 1
                want = PARTNER.get(enc_of.get(ity))
                ctx.check(len(dc) == 1 and dc[0][0] == want and dc[0][1] in (None, ity), "codec-pair", "%s:%s" % (nm, ity),
                          "%s is encoded with %s but decoded with %s (%s): converting an integer to a key and back does not return it"
                          % (nm, enc_of.get(ity), [d[0] for d in dc], [d[1] for d in dc]), where=where(dref))
    ctx.floor("by-value==by-reference", "by-value / by-reference integer conversion pairs", n_pairs, 5)
    ctx.floor("codec-pair", "encoder/decoder pairs", n_codec, 3)

    # ---- (3) byte identity ----------------------------------------------------------------------
    derived_needed = ["core::cmp::PartialEq", "core::cmp::Eq", "core::cmp::PartialOrd", "core::cmp::Ord", "core::hash::Hash"]
    for kt in sorted(kts):
        nm = short(kt)
        adt = prog.adts.get(kt)
        ok = adt is not None and len(adt["variants"]) == 1 and len(adt["variants"][0]["fields"]) == 1 and adt["variants"][0]["fields"][0]["ty"] == "alloc::vec::Vec<u8>"
        ctx.check(ok, "byte-identity", nm + ":newtype", "%s is not a one-field newtype over Vec<u8>" % nm)
        for tr in derived_needed:
            im = [i for i in prog.impls if i["crate"] == "abyssiniandb" and i["self"] == kt and i.get("trait") == tr]
            ctx.check(len(im) == 1 and im[0]["from_expansion"] and any("derive" in m for m in im[0]["macros"]), "byte-identity", "%s:derived:%s" % (nm, tr.rsplit("::", 1)[-1]),
                      "%s for %s is hand-written (or missing): equality / ordering / hashing may no longer be that of the stored bytes" % (tr, nm))
        hv = [i for i in prog.impls if i["crate"] == "abyssiniandb" and i["self"] == kt and i.get("trait") == "abyssiniandb::HashValue"]
        ctx.check(len(hv) == 1 and not hv[0]["items"], "byte-identity", nm + ":hash_value-not-overridden", "%s overrides hash_value (placement no longer the shared byte hash)" % nm)
        methods = {it["name"]: prog.fns.get(it["id"]) for it in kts[kt]["items"]}
        ab, fb, cu = methods.get("as_bytes"), methods.get("from_bytes"), methods.get("cmp_u8")
        if not ctx.check(all(x is not None for x in (ab, fb, cu)), "byte-identity", nm + ":methods", "as_bytes/from_bytes/cmp_u8 missing"):
            continue
        for f in (ab, fb, cu):
            ctx.touch(f)
        o = leaf_origins(prog, ab, {"k": "cp", "pl": {"l": 0, "p": []}}, terminal_only=True)
        o = _through(prog, ab, o)
        ctx.check(bool(o) and all(x.kind == "param" and x.data == 1 and x.proj and x.proj[-1].endswith(".0") for x in o), "byte-identity", nm + ":as_bytes",
                  "%s::as_bytes does not return the wrapped bytes (%s)" % (nm, o), where=where(ab))
        o = tracer(prog, fb).place({"l": 0, "p": []})
        good = False
        for x in o:
            if x.kind == "agg" and x.data.get("agg") == "adt":
                inner = _through(prog, fb, origins(prog, fb, x.data["ops"][0], at=x.block))
                good = bool(inner) and all(y.kind == "param" and y.data == 1 for y in inner)
        ctx.check(good, "byte-identity", nm + ":from_bytes", "%s::from_bytes does not wrap a copy of its argument" % nm, where=where(fb))
        cmps = [(b, t) for b, t in cu.calls() if (t.get("callee") or "") == "core::cmp::Ord::cmp"]
        decs = codec_calls(cu, DECODERS)
        if ctx.check(len(cmps) == 1, "byte-identity", nm + ":cmp_u8:one-compare", "cmp_u8 of %s does not perform exactly one comparison" % nm, where=where(cu)):
            b, t = cmps[0]
            sides = [_through(prog, cu, leaf_origins(prog, cu, a, at=b, terminal_only=True, opaque_index=True), opaque_index=True) for a in t["args"]]
            is_self = lambda s: bool(s) and all(x.kind == "param" and x.data == 1 and x.proj and x.proj[-1].endswith(".0") for x in s)
            is_other = lambda s: bool(s) and all(x.kind == "param" and x.data == 2 for x in s)
            if not decs:
                ctx.check(is_self(sides[0]) and is_other(sides[1]) and t["gargs"][0] == "[u8]", "byte-identity", nm + ":cmp_u8",
                          "cmp_u8 of %s is not the byte-slice comparison of the key with the stored bytes (%s)" % (nm, t["gargs"]), where=where(cu, b))
            else:
                own = {d[0] for d in codec_calls(froms.get(("u64", "&" + kt)), DECODERS)} if froms.get(("u64", "&" + kt)) else set()
                ctx.check(len(decs) == 2 and {d[0] for d in decs} == own and t["gargs"][0] == "u64", "byte-identity", nm + ":cmp_u8",
                          "cmp_u8 of %s decodes with %s but the type's own decoder is %s, or does not decode both sides" % (nm, [d[0] for d in decs], sorted(own)), where=where(cu, b))
                # each decoder call gets one side
                args = []
                for bb, tt in cu.calls():
                    if (tt.get("callee") or "").rsplit("::", 1)[-1] in DECODERS:
                        args.append(_through(prog, cu, leaf_origins(prog, cu, tt["args"][0], at=bb, terminal_only=True)))
                ctx.check(len(args) == 2 and any(is_self(a) for a in args) and any(is_other(a) for a in args), "byte-identity", nm + ":cmp_u8:both-sides",
                          "cmp_u8 of %s does not decode the key and the stored bytes" % nm, where=where(cu))
    ctx.sample({"key_types": [short(k) for k in sorted(kts)], "int_pairs": n_pairs})


def _through(prog, fn, os_, depth=0, opaque_index=False):
    """Follow Vec::as_slice / to_vec / deref style projections back to their receiver."""
    out = []
    for o in os_:
        if o.kind == "call" and depth < 6 and o.data.get("args") and (o.data.get("callee") or "").rsplit("::", 1)[-1] in (
                "as_slice", "to_vec", "as_ref", "deref", "as_bytes", "borrow", "clone", "into_vec", "to_owned"):
            out.extend(_through(prog, fn, leaf_origins(prog, fn, o.data["args"][0], at=o.block, terminal_only=True, opaque_index=opaque_index), depth + 1, opaque_index))
        else:
            out.append(o)
    return out


def check(ctx):
    _check_own(ctx)
    from .engine import import_rules
    import_rules(ctx, "c01", {"lookup-by-full-key", "lookup-result"})
    # keys come back from iteration as stored only if the key loader reads each field where the layout puts it
    import_rules(ctx, "c05", {"field-position"})
    import_rules(ctx, "c09", {"vu64-reader-consumes-encoded-length"})
