"""Helper normalisation: functions of the lib that are *new* with respect to the committed baseline (not in
rules/golden/baseline_functions.json) and that no rule addresses as a role are transparent helpers - the product of an
"extract function" refactoring or of a change that adds a helper.  Their bodies are inlined into every call site before
any rule looks at the program, so that rules written against `put_kt`, `write_piece`, ... see the same shape whether a
block lives in the function or in a private helper next to it.

On the unchanged tree nothing is inlined (every function is in the baseline).  MIR splice: callee locals and blocks are
appended to the caller (renumbered), the call becomes `args -> callee parameter locals; goto callee entry`, every
callee `return` becomes `dest = move callee _0; goto continuation`.
"""
import copy
import json
import os

from .model import Fn

HERE = os.path.dirname(os.path.abspath(__file__))
BASELINE = os.path.join(HERE, "golden", "baseline_functions.json")
MAX_BLOCKS = 400


_BASE = None


def load_baseline(config=None):
    """{fn id: [owner adt, trait, inputs, output]} of the committed tree for this feature configuration."""
    global _BASE
    if not os.path.exists(BASELINE):
        return None
    if _BASE is None:
        with open(BASELINE) as fh:
            _BASE = json.load(fh)["configs"]
    if config is None:
        return _BASE
    return _BASE.get(config)


def _module_of(fid):
    parts = fid.split("::")
    return "::".join(parts[:-1])


def _file_module_of(fid):
    """Module path without impl-block / type segments: `a::b::<impl T>::f`, `a::b::T::<K>::f` and `a::b::f` -> `a::b`
    (module names are lower case, type names are not)."""
    out = []
    for p_ in fid.split("::")[:-1]:
        if p_.startswith("<") or "<" in p_ or (p_[:1].isupper()):
            break
        out.append(p_)
    return "::".join(out)


def _map_place(pl, lm):
    return {"l": lm(pl["l"]), "p": [("idx:%d" % lm(int(e[4:]))) if e.startswith("idx:") else e for e in pl["p"]]}


def _map_op(op, lm):
    if isinstance(op, dict) and op.get("k") in ("cp", "mv") and "pl" in op:
        o = dict(op)
        o["pl"] = _map_place(op["pl"], lm)
        return o
    return op


def _map_rv(rv, lm):
    r = dict(rv)
    k = rv["rv"]
    if k in ("use", "cast", "un", "repeat"):
        r["a"] = _map_op(rv["a"], lm)
    elif k in ("ref", "discr", "rawptr"):
        r["pl"] = _map_place(rv["pl"], lm)
    elif k == "agg":
        r["ops"] = [_map_op(x, lm) for x in rv["ops"]]
    elif k == "bin":
        r["a"] = _map_op(rv["a"], lm)
        r["b"] = _map_op(rv["b"], lm)
    return r


def _map_block(blk, lm, bm):
    nb = {"cleanup": blk["cleanup"], "stmts": [], "term": None}
    for s in blk["stmts"]:
        s2 = dict(s)
        if s["s"] == "assign":
            s2["lhs"] = _map_place(s["lhs"], lm)
            s2["rhs"] = _map_rv(s["rhs"], lm)
        nb["stmts"].append(s2)
    t = blk["term"]
    if t is not None:
        t2 = dict(t)
        k = t["t"]
        if k == "goto":
            t2["target"] = bm(t["target"])
        elif k == "switch":
            t2["discr"] = _map_op(t["discr"], lm)
            t2["targets"] = [[v, bm(b)] for v, b in t["targets"]]
            t2["otherwise"] = bm(t["otherwise"]) if t["otherwise"] is not None else None
        elif k == "assert":
            t2["cond"] = _map_op(t["cond"], lm)
            t2["target"] = bm(t["target"])
            t2["unwind"] = bm(t["unwind"]) if isinstance(t.get("unwind"), int) else t.get("unwind")
        elif k == "drop":
            t2["pl"] = _map_place(t["pl"], lm)
            t2["target"] = bm(t["target"])
            t2["unwind"] = bm(t["unwind"]) if isinstance(t.get("unwind"), int) else t.get("unwind")
        elif k == "call":
            t2["args"] = [_map_op(a, lm) for a in t["args"]]
            if t.get("fn_op") is not None:
                t2["fn_op"] = _map_op(t["fn_op"], lm)
            t2["dest"] = _map_place(t["dest"], lm)
            t2["target"] = bm(t["target"]) if t["target"] is not None else None
            t2["unwind"] = bm(t["unwind"]) if isinstance(t.get("unwind"), int) else t.get("unwind")
        nb["term"] = t2
    return nb


def _splice(caller_raw, b, callee_raw):
    """Inline callee at the call terminating block b of caller (both raw JSON dicts); returns nothing (mutates caller)."""
    t = caller_raw["blocks"][b]["term"]
    loff = len(caller_raw["locals"])
    boff = len(caller_raw["blocks"])
    ident = lambda x: x
    lm = lambda l: l + loff
    # continuation block index: after the callee's blocks
    cont = boff + len(callee_raw["blocks"])
    for loc in callee_raw["locals"]:
        caller_raw["locals"].append(dict(loc))
    span = t.get("span")
    for blk in callee_raw["blocks"]:
        nb = _map_block(blk, lm, lambda x: x + boff)
        tt = nb["term"]
        if tt is not None and tt["t"] == "return" and not nb["cleanup"]:
            nb["term"] = {"t": "goto", "target": cont, "span": tt.get("span")}
        caller_raw["blocks"].append(nb)
    # continuation: dest = move callee _0 ; goto original target
    cont_blk = {"cleanup": False, "stmts": [{"s": "assign", "lhs": copy.deepcopy(t["dest"]),
                                              "rhs": {"rv": "use", "a": {"k": "mv", "pl": {"l": loff, "p": []}}},
                                              "span": span, "macros": []}],
                "term": ({"t": "goto", "target": t["target"], "span": span} if t["target"] is not None else {"t": "unreachable", "span": span})}
    caller_raw["blocks"].append(cont_blk)
    # the caller applies `?` to the result: the callee's own `Err(..)` exits are error paths of the merged body
    tb = caller_raw["blocks"][t["target"]]["term"] if t["target"] is not None else None
    propagates = tb is not None and tb["t"] == "call" and (tb.get("callee") or "").endswith("Try::branch") and tb["args"] \
        and tb["args"][0].get("pl", {}).get("l") == t["dest"]["l"]
    # ... or returns it as its own result (tail call): `_0 = helper(..)` / `_t = helper(..); _0 = move _t`
    if not propagates and not t["dest"]["p"]:
        if t["dest"]["l"] == 0 or t["dest"]["l"] in caller_raw.get("err_ret_locals", ()):
            propagates = True
        elif t["target"] is not None:
            for st in caller_raw["blocks"][t["target"]]["stmts"][:2]:
                if st["s"] == "assign" and st["lhs"]["l"] == 0 and not st["lhs"]["p"] and st["rhs"]["rv"] == "use" \
                        and st["rhs"]["a"].get("pl", {}).get("l") == t["dest"]["l"]:
                    propagates = True
    if propagates:
        caller_raw.setdefault("err_ret_locals", []).append(loff)
    # by-reference arguments: `helper(&mut self.field)` - inside the helper `*param` IS that place.  Rewrite the
    # callee's derefs of such a parameter to the place itself so that field stores / reads stay visible as such.
    subst = {}
    for i, a in enumerate(t["args"]):
        if a.get("k") in ("cp", "mv") and not a["pl"]["p"]:
            src = _single_ref_def(caller_raw, a["pl"]["l"], boff)
            if src is not None and not _assigned_elsewhere(callee_raw, 1 + i):
                subst[loff + 1 + i] = src
    if subst:
        for bi in range(boff, boff + len(callee_raw["blocks"])):
            _subst_derefs(caller_raw["blocks"][bi], subst)
    # a by-value parameter that the callee neither re-assigns nor borrows is just another name for the argument: drop
    # the debug name so that expression canonicalisation looks through it (`fn base(n) { H + n * 8 }` inlined)
    for i, a in enumerate(t["args"]):
        if not _assigned_elsewhere(callee_raw, 1 + i) and not _borrowed(callee_raw, 1 + i):
            caller_raw["locals"][loff + 1 + i]["name"] = None
    # argument passing
    for i, a in enumerate(t["args"]):
        caller_raw["blocks"][b]["stmts"].append({"s": "assign", "lhs": {"l": loff + 1 + i, "p": []}, "rhs": {"rv": "use", "a": copy.deepcopy(a)},
                                                 "span": span, "macros": []})
    caller_raw["blocks"][b]["term"] = {"t": "goto", "target": boff, "span": span}


def _single_ref_def(raw, l, upto):
    """place P if local l is defined exactly once, by `l = &P` / `&mut P` / a reborrow chain of such, in the caller's own blocks"""
    for _ in range(4):
        defs = []
        for bi, blk in enumerate(raw["blocks"][:upto]):
            if blk is None:
                continue
            for st in blk["stmts"]:
                if st["s"] == "assign" and st["lhs"]["l"] == l and not st["lhs"]["p"]:
                    defs.append(st)
            tt = blk["term"]
            if tt is not None and tt["t"] == "call" and tt["dest"]["l"] == l:
                return None
        if len(defs) != 1 or defs[0]["rhs"]["rv"] != "ref":
            return None
        pl = defs[0]["rhs"]["pl"]
        if pl["p"] == ["*"]:
            l = pl["l"]            # reborrow `&mut *x`: look at x
            continue
        if any(e.startswith("idx:") for e in pl["p"]):
            return None
        return copy.deepcopy(pl)
    return None


def _borrowed(callee_raw, param):
    for blk in callee_raw["blocks"]:
        for st in blk["stmts"]:
            if st["s"] == "assign" and st["rhs"].get("rv") in ("ref", "addr", "rawptr") and st["rhs"].get("pl", {}).get("l") == param:
                return True
    return False


def _assigned_elsewhere(callee_raw, param):
    for blk in callee_raw["blocks"]:
        for st in blk["stmts"]:
            if st["s"] == "assign" and st["lhs"]["l"] == param and not st["lhs"]["p"]:
                return True
        tt = blk["term"]
        if tt is not None and tt["t"] == "call" and tt["dest"]["l"] == param and not tt["dest"]["p"]:
            return True
    return False


def _subst_place(pl, subst):
    if pl["l"] in subst and pl["p"][:1] == ["*"]:
        src = subst[pl["l"]]
        return {"l": src["l"], "p": list(src["p"]) + list(pl["p"][1:])}
    return pl


def _subst_op(op, subst):
    if isinstance(op, dict) and op.get("k") in ("cp", "mv") and "pl" in op:
        o = dict(op)
        o["pl"] = _subst_place(op["pl"], subst)
        return o
    return op


def _subst_derefs(blk, subst):
    for st in blk["stmts"]:
        if st["s"] != "assign":
            continue
        st["lhs"] = _subst_place(st["lhs"], subst)
        rv = st["rhs"]
        k = rv["rv"]
        if k in ("use", "cast", "un", "repeat"):
            rv["a"] = _subst_op(rv["a"], subst)
        elif k in ("ref", "discr", "rawptr"):
            rv["pl"] = _subst_place(rv["pl"], subst)
        elif k == "agg":
            rv["ops"] = [_subst_op(x, subst) for x in rv["ops"]]
        elif k == "bin":
            rv["a"] = _subst_op(rv["a"], subst)
            rv["b"] = _subst_op(rv["b"], subst)
    t = blk["term"]
    if t is None:
        return
    if t["t"] == "switch":
        t["discr"] = _subst_op(t["discr"], subst)
    elif t["t"] == "assert":
        t["cond"] = _subst_op(t["cond"], subst)
    elif t["t"] == "drop":
        t["pl"] = _subst_place(t["pl"], subst)
    elif t["t"] == "call":
        t["args"] = [_subst_op(a, subst) for a in t["args"]]
        t["dest"] = _subst_place(t["dest"], subst)


def _fn_items_referenced(prog):
    """ids of lib functions that appear as a function-item operand anywhere (`.map(helper)`, `f as fn(..)`)"""
    out = set()

    def walk(o):
        if isinstance(o, dict):
            v = o.get("v")
            if isinstance(v, dict) and isinstance(v.get("fn"), str):
                out.add(v["fn"])
            for x in o.values():
                walk(x)
        elif isinstance(o, list):
            for x in o:
                walk(x)
    for f in prog.fns.values():
        if f.crate == "abyssiniandb":
            walk(f.blocks)
    return out


def normalize(prog, protect=(), config="default"):
    """Inline every new (non-baseline), non-role, non-trait-impl function of the lib into its call sites.
    A new function that takes the place of a baseline function which has disappeared (same owner type, same module,
    same parameter and result types) is a *rename*, not a new helper, and is left alone.
    Returns the list of inlined function ids."""
    base = load_baseline(config)
    if base is None:
        return []
    protect = set(protect)
    # new inherent / free functions, and new impls of the std operator traits (`impl Sub for Size<T>`: operator sugar for
    # what was written out before)
    new = [f for f in prog.fns.values() if f.crate == "abyssiniandb" and f.kind in ("Fn", "AssocFn") and f.id not in base
           and f.id not in protect and (f.impl_trait is None or f.impl_trait.startswith(("core::ops::arith::", "core::ops::bit::")))
           and f.trait_default_of is None and f.blocks and len(f.blocks) <= MAX_BLOCKS]
    # a new private function nobody calls any more once the debug assertions are stripped is dead in the release view
    callers0 = prog.callers()
    referenced = _fn_items_referenced(prog)
    for f in list(new):
        if not f.is_pub and f.impl_trait is None and not callers0.get(f.id) and f.id not in referenced and not prog.closures_of(f):
            prog.remove_fn(f.id)
            new.remove(f)
    if not new:
        return []
    missing = {i: v for i, v in base.items() if i not in prog.fns}
    renamed = set()
    for f in sorted(new, key=lambda x: x.id):
        for gid, (owner, trait, inputs, output, *_rest) in sorted(missing.items()):
            if owner == f.impl_self_adt and trait is None and inputs == f.inputs and output == f.output and _module_of(gid) == _module_of(f.id):
                renamed.add(f.id)
                del missing[gid]
                break
    new = [f for f in new if f.id not in renamed]
    if not new:
        return []
    new_ids = {f.id for f in new}
    done = []
    for _round in range(6):
        changed = False
        for caller in list(prog.fns.values()):
            if caller.crate != "abyssiniandb":
                continue
            sites = []
            for b, t in caller.calls():
                tg, kind = prog.targets(t, caller)
                if len(tg) == 1 and tg[0].id in new_ids and tg[0].id != caller.id and len(t["args"]) == tg[0].arg_count:
                    sites.append((b, tg[0]))
            if not sites or len(caller.blocks) > 4 * MAX_BLOCKS:
                continue
            raw = copy.deepcopy(caller.raw)
            for b, callee in sites:
                _splice(raw, b, callee.raw)
                prog.adopt_closures(caller.id, callee.id)
                if callee.id not in done:
                    done.append(callee.id)
            nf = Fn(caller.crate, raw)
            prog.replace_fn(nf)
            changed = True
        if not changed:
            break
    # a helper whose call sites were all inlined no longer exists as far as the rules are concerned
    callers = prog.callers()
    for hid in list(done):
        if not callers.get(hid):
            prog.remove_fn(hid)
    return done


def virtual_inline(prog, fn, callee_pred, rounds=3):
    """A copy of `fn` with every call to a lib function selected by callee_pred(callee Fn) spliced in (the program is
    not modified).  Lets a rule look at `caller + its small private wrapper` as one body, so that it does not matter
    whether the wrapper exists or was written out in place."""
    cur = fn
    for _ in range(rounds):
        sites = []
        for b, t in cur.calls():
            tg, kind = prog.targets(t, cur)
            if len(tg) == 1 and tg[0].id != fn.id and tg[0].crate == "abyssiniandb" and tg[0].blocks and len(t["args"]) == tg[0].arg_count and callee_pred(tg[0]):
                sites.append((b, tg[0]))
        if not sites:
            break
        raw = copy.deepcopy(cur.raw)
        for b, callee in sites:
            _splice(raw, b, callee.raw)
        cur = Fn(fn.crate, raw)
    return cur


# ---------------------------------------------------------------------------------------------------------------
# Closure desugaring: `x.and_then(|v| ..)`, `opt.map(|v| ..)`, `it.try_for_each(|e| ..)`, `f(arg)` for a closure `f`
# built in the same function ...  The closure body is code of the enclosing function as far as every rule is
# concerned; after this pass it *is* code of the enclosing function: the combinator call is replaced by the
# control flow it stands for with the closure body spliced in.  Only std combinators with fixed, documented
# semantics are rewritten; anything else keeps its opaque call.
# ---------------------------------------------------------------------------------------------------------------
RES, OPT = "core::result::Result", "core::option::Option"


def _pl(l, *proj):
    return {"l": l, "p": list(proj)}


def _mv(pl):
    return {"k": "mv", "pl": pl}


def _cp(pl):
    return {"k": "cp", "pl": pl}


def _assign(lhs, rhs, span):
    return {"s": "assign", "lhs": lhs, "rhs": rhs, "span": span, "macros": ["desugar:closure"]}


def _agg(adt, variant, ops):
    return {"rv": "agg", "agg": "adt", "adt": adt, "variant": variant, "fields": ["0"] if ops else [], "ops": ops}


def _payload(pl, adt, variant):
    return {"l": pl["l"], "p": list(pl["p"]) + ["dc:" + variant, "f:%s::%s.0" % (adt, variant)]}


class _Builder:
    def __init__(self, raw, span):
        self.raw = raw
        self.span = span

    def local(self, ty="?", name=None):
        d = {"ty": ty}
        if name:
            d["name"] = name
        self.raw["locals"].append(d)
        return len(self.raw["locals"]) - 1

    def block(self, stmts=None, term=None):
        self.raw["blocks"].append({"cleanup": False, "stmts": stmts or [], "term": term})
        return len(self.raw["blocks"]) - 1

    def goto(self, b):
        return {"t": "goto", "target": b, "span": self.span}

    def switch_variant(self, pl, arms, otherwise=None):
        """block that switches on the discriminant of `pl`; arms: {variant index: block}."""
        d = self.local("isize")
        unr = otherwise if otherwise is not None else self.block([], {"t": "unreachable", "span": self.span})
        return self.block([_assign(_pl(d), {"rv": "discr", "pl": pl}, self.span)],
                          {"t": "switch", "discr": _mv(_pl(d)), "dty": "isize", "span": self.span,
                           "targets": [[str(k), v] for k, v in sorted(arms.items())], "otherwise": unr})

    def splice_closure(self, clo_raw, clo_operand, args, cont_builder):
        """Append the closure body; returns (entry block, result local).  `cont_builder(result_local)` must return the
        block every closure `return` continues at."""
        raw = self.raw
        loff = len(raw["locals"])
        boff = len(raw["blocks"])
        for loc in clo_raw["locals"]:
            raw["locals"].append(dict(loc))
        # reserve the blocks first so that cont_builder's blocks come after them
        placeholder = len(clo_raw["blocks"])
        for _ in range(placeholder):
            raw["blocks"].append(None)
        cont = cont_builder(loff)
        for i, blk in enumerate(clo_raw["blocks"]):
            nb = _map_block(blk, lambda l: l + loff, lambda x: x + boff)
            tt = nb["term"]
            if tt is not None and tt["t"] == "return" and not nb["cleanup"]:
                nb["term"] = {"t": "goto", "target": cont, "span": tt.get("span")}
            raw["blocks"][boff + i] = nb
        # captured places: `*(env.i)` where capture i of the closure value is `&mut <place>` / `&<place>` taken in this very
        # function IS that place - rewrite it so that a store through a capture (`|()| self.dirty = false`) stays visible
        # as the field store it is
        caps = _capture_places(raw, clo_operand, boff)
        if caps:
            env = loff + 1
            def fix(pl):
                pr = pl["p"]
                for pre in (["*"], []):
                    k = len(pre)
                    if pl["l"] == env and pr[:k] == pre and len(pr) >= k + 2 and pr[k].startswith("f:") and pr[k + 1] == "*":
                        idx = pr[k][2:].rsplit(".", 1)[-1]
                        if idx.isdigit() and int(idx) in caps:
                            tgt = caps[int(idx)]
                            return {"l": tgt["l"], "p": list(tgt["p"]) + list(pr[k + 2:])}
                return pl
            for i in range(len(clo_raw["blocks"])):
                raw["blocks"][boff + i] = _rewrite_places(raw["blocks"][boff + i], fix)
        # entry: bind the environment and the arguments
        stmts = []
        if clo_operand is not None:
            src = clo_operand.get("pl") if clo_operand.get("k") in ("cp", "mv") else None
            if src is not None:
                stmts.append(_assign(_pl(loff + 1), {"rv": "ref", "mut": False, "pl": copy.deepcopy(src)}, self.span))
        base = loff + (2 if clo_raw.get("kind") == "Closure" else 1)
        for i, a in enumerate(args):
            if base + i < len(raw["locals"]):
                stmts.append(_assign(_pl(base + i), {"rv": "use", "a": copy.deepcopy(a)}, self.span))
        entry = self.block(stmts, self.goto(boff))
        return entry, loff


def _rewrite_places(o, fix):
    if isinstance(o, dict):
        if set(o.keys()) == {"l", "p"} and isinstance(o["l"], int) and isinstance(o["p"], list):
            return fix(o)
        return {k: _rewrite_places(v, fix) for k, v in o.items()}
    if isinstance(o, list):
        return [_rewrite_places(v, fix) for v in o]
    return o


def _capture_places(raw, clo_operand, upto):
    """{capture index: place} for the by-reference captures of the closure value held in clo_operand's local, when that
    local has a single definition (the closure aggregate) and the captured reference a single definition `&[mut] place`."""
    if clo_operand is None or clo_operand.get("k") not in ("cp", "mv") or clo_operand["pl"]["p"]:
        return {}
    l = clo_operand["pl"]["l"]
    defs = []
    for blk in raw["blocks"][:upto]:
        if blk is None:
            continue
        for st in blk["stmts"]:
            if st["s"] == "assign" and st["lhs"]["l"] == l and not st["lhs"]["p"]:
                defs.append(st)
    if len(defs) != 1 or defs[0]["rhs"].get("rv") != "agg" or defs[0]["rhs"].get("agg") != "closure":
        return {}
    out = {}
    for i, op in enumerate(defs[0]["rhs"].get("ops", [])):
        if op.get("k") in ("cp", "mv") and not op["pl"]["p"]:
            src = _single_ref_def(raw, op["pl"]["l"], upto)
            if src is not None:
                out[i] = src
    return out


def _closure_of_operand(prog, fn, op, at):
    """The closure Fn an operand denotes, if it is a closure built in this very function (single definition)."""
    if op.get("k") not in ("cp", "mv") or op["pl"]["p"]:
        if op.get("k") == "c" and isinstance(op.get("v"), dict) and op["v"].get("fn") in prog.fns:
            return prog.fns[op["v"]["fn"]], None           # a named lib function passed where a closure could stand
        return None, None
    l = op["pl"]["l"]
    for _ in range(6):
        ds = fn.defs().get(l, [])
        if len(ds) != 1 or ds[0][1] != "assign" or ds[0][2]["lhs"]["p"]:
            return None, None
        rv = ds[0][2]["rhs"]
        if rv["rv"] == "agg" and rv.get("agg") == "closure" and rv.get("closure") in prog.fns:
            return prog.fns[rv["closure"]], {"k": "cp", "pl": {"l": l, "p": []}}
        if rv["rv"] == "use" and rv["a"].get("k") == "c" and isinstance(rv["a"].get("v"), dict) and rv["a"]["v"].get("fn") in prog.fns:
            return prog.fns[rv["a"]["v"]["fn"]], None          # a local holding a lib function item
        if rv["rv"] == "cast" and "ReifyFnPointer" in str(rv.get("kind")) and rv["a"].get("k") == "c" and isinstance(rv["a"].get("v"), dict) \
                and rv["a"]["v"].get("fn") in prog.fns:
            return prog.fns[rv["a"]["v"]["fn"]], None          # `f as fn(..)`: a lib function item reified as a function pointer
        if rv["rv"] == "use" and rv["a"].get("k") in ("cp", "mv") and not rv["a"]["pl"]["p"]:
            l = rv["a"]["pl"]["l"]
            continue
        if rv["rv"] == "ref" and not rv["pl"]["p"]:
            l = rv["pl"]["l"]
            continue
        return None, None
    return None, None


def _adt_of(ty):
    ty = ty.lstrip("&").replace("mut ", "")
    if ty.startswith(RES + "<"):
        return RES
    if ty.startswith(OPT + "<"):
        return OPT
    return None


def _nargs(clo):
    return clo.arg_count - (1 if clo.kind == "Closure" else 0)


def _desugar_site(prog, fn, raw, b, t):
    """Rewrite one call site if it is a known combinator over a known closure.  Returns True if rewritten."""
    cal = t.get("callee") or ""
    nm = cal.rsplit("::", 1)[-1]
    args = t["args"]
    span = t.get("span")
    B = _Builder(raw, span)
    T = t["target"]
    if T is None:
        return False
    dest = t["dest"]

    def finish(entry_stmts_target):
        raw["blocks"][b]["term"] = {"t": "goto", "target": entry_stmts_target, "span": span}
        return True

    # ---- direct call of a local closure: f(a, b)  ==  FnOnce::call_once(f, (a, b))
    if cal in ("core::ops::function::FnOnce::call_once", "core::ops::function::FnMut::call_mut", "core::ops::function::Fn::call") and len(args) == 2:
        clo, env = _closure_of_operand(prog, fn, args[0], b)
        if clo is None or clo.id == fn.id:
            return False
        if clo.kind != "Closure":
            # `f(a, b)` where f is a parameter bound to a lib function (after a generic helper was inlined):
            # make it the direct call it is
            tup = args[1]
            ops = None
            if tup.get("k") in ("cp", "mv") and not tup["pl"]["p"]:
                ds = fn.defs().get(tup["pl"]["l"], [])
                if len(ds) == 1 and ds[0][1] == "assign" and ds[0][2]["rhs"]["rv"] == "agg" and ds[0][2]["rhs"].get("agg") == "tuple":
                    ops = ds[0][2]["rhs"]["ops"]
            if ops is None or len(ops) != clo.arg_count:
                return False
            nt = dict(t)
            nt.update({"callee": clo.id, "callee_full": clo.id, "resolved": clo.id, "resolved_kind": "Item", "callee_trait": None,
                       "args": [copy.deepcopy(o) for o in ops], "arg_tys": list(clo.inputs), "gargs": [], "virtual": False})
            raw["blocks"][b]["term"] = nt
            return True
        # the argument tuple: an aggregate defined just before
        tup = args[1]
        ops = None
        if tup.get("k") in ("cp", "mv") and not tup["pl"]["p"]:
            ds = fn.defs().get(tup["pl"]["l"], [])
            if len(ds) == 1 and ds[0][1] == "assign" and ds[0][2]["rhs"]["rv"] == "agg" and ds[0][2]["rhs"].get("agg") == "tuple":
                ops = ds[0][2]["rhs"]["ops"]
        if ops is None or len(ops) != clo.arg_count - 1:
            return False
        entry, loff = B.splice_closure(clo.raw, env, ops, lambda ro: B.block([_assign(copy.deepcopy(dest), {"rv": "use", "a": _mv(_pl(ro))}, span)], B.goto(T)))
        return finish(entry)

    # ---- cond.then(|| v)  ==  if cond { Some(v) } else { None }
    if cal == "core::bool::<impl bool>::then" and len(args) == 2:
        clo, env = _closure_of_operand(prog, fn, args[1], b)
        if clo is None or clo.id == fn.id or _nargs(clo) != 0:
            return False
        entry, loff = B.splice_closure(clo.raw, env, [], lambda ro: B.block([_assign(copy.deepcopy(dest), _agg(OPT, "Some", [_mv(_pl(ro))]), span)], B.goto(T)))
        none = B.block([_assign(copy.deepcopy(dest), {"rv": "agg", "agg": "adt", "adt": OPT, "variant": "None", "fields": [], "ops": []}, span)], B.goto(T))
        sw = B.block([], {"t": "switch", "discr": copy.deepcopy(args[0]), "dty": "bool", "span": span, "targets": [["0", none]], "otherwise": entry})
        return finish(sw)

    recv_adt = _adt_of((t.get("arg_tys") or [""])[0]) if t.get("arg_tys") else None
    is_res = cal.startswith(RES + "::")
    is_opt = cal.startswith(OPT + "::")
    if (is_res or is_opt) and args and args[0].get("k") in ("cp", "mv"):
        adt = RES if is_res else OPT
        good, bad = ("Ok", "Err") if is_res else ("Some", "None")
        gi, bi = (0, 1) if is_res else (1, 0)
        recv = args[0]["pl"]
        if nm in ("map", "and_then", "map_err", "or_else", "unwrap_or_else", "inspect", "inspect_err") and len(args) == 2:
            clo, env = _closure_of_operand(prog, fn, args[1], b)
            if clo is None or clo.id == fn.id:
                return False
            on_good = nm in ("map", "and_then", "inspect")
            if nm in ("map_err", "inspect_err") and not is_res:
                return False
            if nm == "or_else" and is_opt:
                n_args = 0
            else:
                n_args = 1
            if _nargs(clo) != (n_args if not (nm == "unwrap_or_else" and is_opt) else 0):
                return False
            take = good if on_good else bad
            payload = [_mv(_payload(recv, adt, take))] if _nargs(clo) == 1 else []

            def cont(ro):
                if nm == "map":
                    rhs = _agg(adt, good, [_mv(_pl(ro))])
                elif nm == "map_err":
                    rhs = _agg(adt, bad, [_mv(_pl(ro))])
                elif nm in ("inspect", "inspect_err"):
                    rhs = {"rv": "use", "a": _mv(copy.deepcopy(recv))}
                else:            # and_then / or_else / unwrap_or_else: the closure's value is the result
                    rhs = {"rv": "use", "a": _mv(_pl(ro))}
                return B.block([_assign(copy.deepcopy(dest), rhs, span)], B.goto(T))
            entry, loff = B.splice_closure(clo.raw, env, payload, cont)
            # the untouched side is passed through
            if nm == "unwrap_or_else":
                other_rhs = {"rv": "use", "a": _mv(_payload(recv, adt, good))}
            elif on_good:
                other_rhs = _agg(adt, bad, [_mv(_payload(recv, adt, bad))] if is_res else [])
            else:
                other_rhs = _agg(adt, good, [_mv(_payload(recv, adt, good))])
            other = B.block([_assign(copy.deepcopy(dest), other_rhs, span)], B.goto(T))
            arms = {gi: entry, bi: other} if on_good else {bi: entry, gi: other}
            sw = B.switch_variant(copy.deepcopy(recv), arms)
            return finish(sw)
        if nm in ("map_or", "map_or_else") and len(args) == 3:
            clo, env = _closure_of_operand(prog, fn, args[2], b)
            if clo is None or clo.id == fn.id or _nargs(clo) != 1:
                return False
            entry, loff = B.splice_closure(clo.raw, env, [_mv(_payload(recv, adt, good))],
                                           lambda ro: B.block([_assign(copy.deepcopy(dest), {"rv": "use", "a": _mv(_pl(ro))}, span)], B.goto(T)))
            if nm == "map_or":
                other = B.block([_assign(copy.deepcopy(dest), {"rv": "use", "a": copy.deepcopy(args[1])}, span)], B.goto(T))
            else:
                dclo, denv = _closure_of_operand(prog, fn, args[1], b)
                if dclo is None or dclo.id == fn.id:
                    return False
                dargs = [_mv(_payload(recv, adt, bad))] if (is_res and _nargs(dclo) == 1) else []
                if _nargs(dclo) != len(dargs):
                    return False
                other, _ = B.splice_closure(dclo.raw, denv, dargs,
                                            lambda ro: B.block([_assign(copy.deepcopy(dest), {"rv": "use", "a": _mv(_pl(ro))}, span)], B.goto(T)))
            sw = B.switch_variant(copy.deepcopy(recv), {gi: entry, bi: other})
            return finish(sw)
        return False

    # ---- eager iterator combinators: loops over `next()`
    if cal.startswith("core::iter::traits::iterator::Iterator::") and nm in ("for_each", "try_for_each", "fold", "try_fold") and args:
        clo_arg = args[-1]
        clo, env = _closure_of_operand(prog, fn, clo_arg, b)
        if clo is None or clo.id == fn.id:
            return False
        aty = (t.get("arg_tys") or ["?"])[0]
        it = args[0]
        if it.get("k") not in ("cp", "mv"):
            return False
        if aty.startswith("&mut "):
            it_ref = _cp(copy.deepcopy(it["pl"]))
            pre = []
        else:
            r = B.local("&mut " + aty)
            pre = [_assign(_pl(r), {"rv": "ref", "mut": True, "pl": copy.deepcopy(it["pl"])}, span)]
            it_ref = _cp(_pl(r))
        item_ty = OPT + "<?>"
        nx = B.local(item_ty)
        loop_head = B.block([], None)                     # filled below
        acc = None
        idx = None
        want_args = {"for_each": 1, "try_for_each": 1, "position": 1, "find": 1, "any": 1, "all": 1, "fold": 2, "try_fold": 2}[nm]
        if _nargs(clo) != want_args:
            return False
        if nm in ("fold", "try_fold"):
            if len(args) != 3:
                return False
            acc = B.local("?")
            pre.append(_assign(_pl(acc), {"rv": "use", "a": copy.deepcopy(args[1])}, span))
        if nm == "position":
            idx = B.local("usize")
            pre.append(_assign(_pl(idx), {"rv": "use", "a": {"k": "c", "ty": "usize", "v": {"int": "0"}}}, span))
        item = _payload(_pl(nx), OPT, "Some")
        if nm == "find":
            iref = B.local("&?")
            call_args = [_cp(_pl(iref))]
            bind = [_assign(_pl(iref), {"rv": "ref", "mut": False, "pl": item}, span)]
        elif nm in ("fold", "try_fold"):
            call_args = [_mv(_pl(acc)), _mv(item)]
            bind = []
        else:
            call_args = [_mv(item)]
            bind = []

        def cont(ro):
            if nm == "for_each":
                return B.block([], B.goto(loop_head))
            if nm == "fold":
                return B.block([_assign(_pl(acc), {"rv": "use", "a": _mv(_pl(ro))}, span)], B.goto(loop_head))
            if nm in ("try_for_each", "try_fold"):
                rty = _adt_of((clo.locals[0].get("ty") if clo.locals else "") or "")
                if rty != RES:
                    raise _NoRewrite()
                stm = [_assign(_pl(acc), {"rv": "use", "a": _mv(_payload(_pl(ro), RES, "Ok"))}, span)] if nm == "try_fold" else []
                okb = B.block(stm, B.goto(loop_head))
                errb = B.block([_assign(copy.deepcopy(dest), _agg(RES, "Err", [_mv(_payload(_pl(ro), RES, "Err"))]), span)], B.goto(T))
                return B.switch_variant(_pl(ro), {0: okb, 1: errb})
            # bool-valued predicates
            if nm == "position":
                hit = B.block([_assign(copy.deepcopy(dest), _agg(OPT, "Some", [_cp(_pl(idx))]), span)], B.goto(T))
                miss = B.block([_assign(_pl(idx), {"rv": "bin", "op": "Add", "a": _cp(_pl(idx)), "b": {"k": "c", "ty": "usize", "v": {"int": "1"}}, "aty": "usize"}, span)], B.goto(loop_head))
            elif nm == "find":
                hit = B.block([_assign(copy.deepcopy(dest), _agg(OPT, "Some", [_mv(item)]), span)], B.goto(T))
                miss = B.block([], B.goto(loop_head))
            elif nm == "any":
                hit = B.block([_assign(copy.deepcopy(dest), {"rv": "use", "a": {"k": "c", "ty": "bool", "v": {"bool": True}}}, span)], B.goto(T))
                miss = B.block([], B.goto(loop_head))
            else:   # all
                hit = B.block([], B.goto(loop_head))
                miss = B.block([_assign(copy.deepcopy(dest), {"rv": "use", "a": {"k": "c", "ty": "bool", "v": {"bool": False}}}, span)], B.goto(T))
            return B.block([], {"t": "switch", "discr": _mv(_pl(ro)), "dty": "bool", "span": span, "targets": [["0", miss]], "otherwise": hit})
        try:
            entry, loff = B.splice_closure(clo.raw, env, call_args, cont)
        except _NoRewrite:
            return False
        if bind:
            entry = B.block(bind, B.goto(entry))
        # exhausted
        if nm == "for_each":
            done_rhs = {"rv": "use", "a": {"k": "c", "ty": "()", "v": {"zst": "()"}}}
        elif nm == "try_for_each":
            done_rhs = _agg(RES, "Ok", [{"k": "c", "ty": "()", "v": {"zst": "()"}}])
        elif nm == "fold":
            done_rhs = {"rv": "use", "a": _mv(_pl(acc))}
        elif nm == "try_fold":
            done_rhs = _agg(RES, "Ok", [_mv(_pl(acc))])
        elif nm in ("position", "find"):
            done_rhs = {"rv": "agg", "agg": "adt", "adt": OPT, "variant": "None", "fields": [], "ops": []}
        elif nm == "any":
            done_rhs = {"rv": "use", "a": {"k": "c", "ty": "bool", "v": {"bool": False}}}
        else:
            done_rhs = {"rv": "use", "a": {"k": "c", "ty": "bool", "v": {"bool": True}}}
        done = B.block([_assign(copy.deepcopy(dest), done_rhs, span)], B.goto(T))
        sw = B.switch_variant(_pl(nx), {1: entry, 0: done})
        raw["blocks"][loop_head] = {"cleanup": False, "stmts": [], "term": {
            "t": "call", "callee": "core::iter::traits::iterator::Iterator::next", "callee_full": "core::iter::traits::iterator::Iterator::next",
            "callee_trait": "core::iter::traits::iterator::Iterator", "gargs": list((t.get("gargs") or [])[:1]), "resolved": None, "resolved_kind": None,
            "args": [it_ref], "arg_tys": ["&mut " + aty.replace("&mut ", "")], "dest": _pl(nx), "target": sw, "unwind": None, "macros": ["desugar:closure"],
            "from_expansion": False, "span": span, "callee_impl_self": None, "virtual": False}}
        first = B.block(pre, B.goto(loop_head)) if pre else loop_head
        return finish(first)
    return False


class _NoRewrite(Exception):
    pass


def devirtualize_fnptr_calls(prog):
    """`(ptr)(args)` where `ptr` is, in this very function, a lib function item reified as a function pointer (typically
    after a helper taking `fn(..)` parameters was inlined into its caller): make it the direct call it is."""
    n = 0
    for fn in list(prog.fns.values()):
        if fn.crate != "abyssiniandb" or not fn.blocks:
            continue
        raw = None
        for b, t in fn.calls():
            if t.get("callee") is not None or t.get("fn_op") is None:
                continue
            g, env = _closure_of_operand(prog, fn, t["fn_op"], b)
            if g is None or g.kind == "Closure":
                continue
            if raw is None:
                raw = copy.deepcopy(fn.raw)
            t2 = raw["blocks"][b]["term"]
            t2["callee"] = g.id
            t2["callee_full"] = g.id
            t2["resolved"] = g.id
            t2.pop("fn_op", None)
            n += 1
        if raw is not None:
            prog.replace_fn(Fn(fn.crate, raw))
    return n


def desugar_closures(prog, max_rounds=4):
    """Rewrite combinator calls over local closures into explicit control flow, in every function of the lib
    (closures included, innermost first by iterating to a fixpoint).  Returns the number of rewritten sites."""
    n = 0
    absorbed = {}
    for _round in range(max_rounds):
        changed = False
        for fn in list(prog.fns.values()):
            if fn.crate != "abyssiniandb" or not fn.blocks or len(fn.blocks) > 6 * MAX_BLOCKS:
                continue
            sites = [(b, t) for b, t in fn.calls()]
            raw = None
            cur = fn
            for b, t in sites:
                cal = t.get("callee") or ""
                if not (cal.startswith((RES + "::", OPT + "::", "core::iter::traits::iterator::Iterator::", "core::ops::function::Fn", "core::bool::"))):
                    continue
                if raw is None:
                    raw = copy.deepcopy(fn.raw)
                    cur = fn
                try:
                    used = _closure_args(prog, cur, t, b)
                    items = [c for c in (_closure_of_operand(prog, cur, a, b)[0] for a in t["args"]) if c is not None and c.kind != "Closure"]
                    if _desugar_site(prog, cur, raw, b, raw["blocks"][b]["term"]):
                        n += 1
                        changed = True
                        _mark_propagation(raw, raw["blocks"][b], t)
                        for c in used:
                            absorbed.setdefault(fn.id, set()).add(c.id)
                        for c in items:
                            # a lib function handed over as a function item was spliced in: its closures now belong here too
                            prog.adopt_closures(fn.id, c.id)
                except (KeyError, IndexError, TypeError):
                    continue
            if raw is not None and changed:
                prog.replace_fn(Fn(fn.crate, raw))
        if not changed:
            break
    # a closure whose (only) use was rewritten now lives in its parent: it is no longer a separate body
    for parent_id, cids in absorbed.items():
        for cid in cids:
            c = prog.fns.get(cid)
            if c is None or c.kind != "Closure":
                continue
            prog.adopt_closures(parent_id, cid)
            prog.drop_closure(cid)
    return n


def _closure_args(prog, fn, t, b):
    out = []
    for a in t["args"]:
        c, env = _closure_of_operand(prog, fn, a, b)
        if c is not None and c.kind == "Closure":
            out.append(c)
    return out


ERR_PASSTHROUGH = ("and_then", "map", "inspect", "map_or_else")


def _propagates(raw, l, depth=0):
    """Does an Err held in local `l` end up as the function's own error (`?`, returned, or handed through combinators
    that pass an Err on unchanged until one of those)?"""
    if l == 0 or l in raw.get("err_ret_locals", ()):
        return True
    if depth > 6:
        return False
    for blk in raw["blocks"]:
        if blk is None or blk["cleanup"]:
            continue
        for st in blk["stmts"]:
            if st["s"] == "assign" and st["rhs"]["rv"] == "use" and st["rhs"]["a"].get("pl", {}).get("l") == l and not st["rhs"]["a"]["pl"]["p"] and not st["lhs"]["p"]:
                if _propagates(raw, st["lhs"]["l"], depth + 1):
                    return True
        tb = blk["term"]
        if tb is not None and tb["t"] == "call" and tb["args"] and tb["args"][0].get("pl", {}).get("l") == l and not tb["args"][0]["pl"]["p"]:
            cal = tb.get("callee") or ""
            if cal.endswith("Try::branch"):
                return True
            if cal.startswith(RES + "::") and cal.rsplit("::", 1)[-1] in ERR_PASSTHROUGH and not tb["dest"]["p"]:
                if _propagates(raw, tb["dest"]["l"], depth + 1):
                    return True
    return False


def _mark_propagation(raw, blk, t):
    """If the combinator's result is `?`-ed or returned, its synthesized `dest = Err(..)` blocks are error exits."""
    d = t["dest"]
    if d["p"]:
        return
    if _propagates(raw, d["l"]):
        raw.setdefault("err_ret_locals", []).append(d["l"])


def strip_debug_asserts(prog):
    """Remove the code that exists only to evaluate `debug_assert!`s (release builds do not contain it): the
    `if cfg!(debug_assertions)` test jumps straight to its join and the region in between is marked dead."""
    from .util import assert_only_blocks
    n = 0
    for fn in list(prog.fns.values()):
        if fn.crate != "abyssiniandb" or not fn.blocks:
            continue
        region = assert_only_blocks(fn)
        if not region:
            continue
        raw = copy.deepcopy(fn.raw)
        heads = []
        for b, blk in enumerate(fn.blocks):
            t = blk["term"]
            if blk["cleanup"] or b in region or not t or t["t"] != "switch" or t["dty"] != "bool":
                continue
            tg = {v: bb for v, bb in t["targets"]}
            f_t = tg.get("0")
            t_t = t["otherwise"] if "0" in tg else tg.get("1")
            if t_t in region and f_t is not None and f_t not in region:
                heads.append((b, f_t))
        if not heads:
            continue
        for b, f_t in heads:
            raw["blocks"][b]["term"] = {"t": "goto", "target": f_t, "span": raw["blocks"][b]["term"].get("span")}
        for x in region:
            raw["blocks"][x]["cleanup"] = True
        prog.replace_fn(Fn(fn.crate, raw))
        n += 1
    return n



def _permute_params(prog, fn, old_inputs, old_names):
    """Rewrite fn (body and call sites) so that its parameters are in the order old_inputs / old_names.  False if the
    correspondence is not unambiguous or nothing has to move."""
    new_names = [fn.locals[i].get("name") for i in range(1, fn.arg_count + 1)]
    perm = {}          # old position (0-based) -> new position
    used = set()
    # pass 1: unique by type, or by type + unchanged name; pass 2: what is left, by elimination within its type (a
    # parameter that was re-ordered AND renamed, next to a same-typed one that kept its name)
    for _pass in (1, 2):
        for i, (ty, nm) in enumerate(zip(old_inputs, old_names)):
            if i in perm:
                continue
            cands = [j for j, t2 in enumerate(fn.inputs) if t2 == ty and j not in used]
            if len(cands) > 1:
                byname = [j for j in cands if new_names[j] == nm and nm is not None]
                if len(byname) == 1:
                    cands = byname
                elif _pass == 2:
                    # candidates whose name is not claimed by another still-unmatched old parameter of this type
                    others = {old_names[k] for k in range(len(old_inputs)) if k not in perm and k != i and old_inputs[k] == ty}
                    cands = [j for j in cands if new_names[j] not in others]
                    cands = cands if len(cands) == 1 else []
                else:
                    continue
            if len(cands) != 1:
                if _pass == 2:
                    return False
                continue
            perm[i] = cands[0]
            used.add(cands[0])
    if len(perm) != len(old_inputs):
        return False
    if all(i == j for i, j in perm.items()):
        return False
    # body: local (new position j + 1) becomes (old position i + 1)
    lm_tab = {perm[i] + 1: i + 1 for i in perm}
    lm = lambda l: lm_tab.get(l, l)
    raw = copy.deepcopy(fn.raw)
    raw["blocks"] = [_map_block(blk, lm, lambda x: x) for blk in raw["blocks"]]
    locs = list(raw["locals"])
    for i in perm:
        raw["locals"][i + 1] = locs[perm[i] + 1]
    raw["inputs"] = list(old_inputs)
    prog.replace_fn(Fn(fn.crate, raw))
    # call sites
    for caller in list(prog.fns.values()):
        if caller.crate != "abyssiniandb":
            continue
        sites = [b for b, t in caller.calls() if len(t["args"]) == len(old_inputs) and any(x.id == fn.id for x in prog.targets(t, caller)[0])
                 and len(prog.targets(t, caller)[0]) == 1]
        if not sites:
            continue
        craw = copy.deepcopy(caller.raw)
        for b in sites:
            t = craw["blocks"][b]["term"]
            t["args"] = [t["args"][perm[i]] for i in range(len(old_inputs))]
            if t.get("arg_tys") and len(t["arg_tys"]) == len(old_inputs):
                t["arg_tys"] = [t["arg_tys"][perm[i]] for i in range(len(old_inputs))]
        prog.replace_fn(Fn(caller.crate, craw))
    return True


def reidentify(prog, config="default"):
    """A private baseline function that has disappeared while exactly one new private function of the same module has
    the same multiset of parameter types and the same result type (and vice versa) has been renamed, moved to another
    impl block / turned from method into free function, and / or had its parameters re-ordered.  It is given back its
    committed owner, name and parameter order so that roles and rules address the same thing.  Returns the ids."""
    base = load_baseline(config)
    if base is None:
        return []
    missing = {i: v for i, v in base.items() if i not in prog.fns and len(v) >= 5 and v[1] is None}
    new = [f for f in prog.fns.values() if f.crate == "abyssiniandb" and f.kind in ("Fn", "AssocFn") and f.id not in base
           and f.impl_trait is None and f.trait_default_of is None and f.blocks and len(f.inputs) == f.arg_count]
    if not missing or not new:
        return []
    def key(inputs, output):
        return (tuple(sorted(inputs)), output)
    done = []
    for gid, (owner, trait, inputs, output, names) in sorted(missing.items()):
        if len(inputs) < 2:
            continue
        cands = [f for f in new if _file_module_of(f.id) == _file_module_of(gid) and key(f.inputs, f.output) == key(inputs, output)]
        rivals = [g for g, v in missing.items() if _file_module_of(g) == _file_module_of(gid) and key(v[2], v[3]) == key(inputs, output)]
        if len(cands) != 1 or len(rivals) != 1:
            continue
        f = cands[0]
        old_name = gid.rsplit("::", 1)[-1]
        if f.impl_self_adt == owner and f.inputs == inputs:
            continue            # a plain rename: handled by normalize()
        raw = copy.deepcopy(f.raw)
        raw["impl_self_adt"] = owner
        raw["name"] = old_name
        raw["kind"] = "AssocFn" if owner else "Fn"
        prog.by_name[f.name] = [x for x in prog.by_name.get(f.name, []) if x.id != f.id]
        nf = Fn(f.crate, raw)
        prog.replace_fn(nf)
        if nf.inputs != inputs:
            _permute_params(prog, prog.fns[nf.id], inputs, names)
        new = [x for x in new if x.id != f.id]
        done.append(f.id)
    return done


def normalize_param_order(prog, config="default"):
    """A private function whose parameters were merely re-ordered (same id, same multiset of parameter types) is
    rewritten back to the committed order - in its body and at every call site - so that rules that address
    `argument 2 of the bucket store` keep addressing the same thing.  Parameters are matched by type and, where several
    share a type, by name; if that is not unambiguous nothing is rewritten."""
    base = load_baseline(config)
    if base is None:
        return []
    done = []
    for fn in list(prog.fns.values()):
        if fn.crate != "abyssiniandb" or fn.id not in base or len(base[fn.id]) < 5:
            continue
        owner, trait, old_inputs, output, old_names = base[fn.id]
        if fn.inputs == old_inputs or sorted(fn.inputs) != sorted(old_inputs) or len(fn.inputs) != fn.arg_count or len(old_names) != len(old_inputs):
            continue
        if _permute_params(prog, fn, old_inputs, old_names):
            done.append(fn.id)
    return done
