"""Helper normalisation: functions of the lib that are *new* with respect to the committed baseline (not in
rules/golden/baseline_functions.json) and that no rule addresses as a role are transparent helpers - the product of an
"extract function" refactoring or of a change that adds a helper.  Their bodies are inlined into every call site before
any rule looks at the program, so that rules written against `put_kt`, `write_piece`, ... see the same shape whether a
block lives in the function or in a private helper next to it.

On the unchanged tree nothing is inlined (every function is in the baseline).  MIR splice: callee locals and blocks are
appended to the caller (renumbered), the call becomes `args -> callee parameter locals; goto callee entry`, every
callee `return` becomes `dest = move callee _0; goto continuation`.
"""
import copy
import json
import os

from .model import Fn

HERE = os.path.dirname(os.path.abspath(__file__))
BASELINE = os.path.join(HERE, "golden", "baseline_functions.json")
MAX_BLOCKS = 400


_BASE = None


def load_baseline(config=None):
    """{fn id: [owner adt, trait, inputs, output]} of the committed tree for this feature configuration."""
    global _BASE
    if not os.path.exists(BASELINE):
        return None
    if _BASE is None:
        with open(BASELINE) as fh:
            _BASE = json.load(fh)["configs"]
    if config is None:
        return _BASE
    return _BASE.get(config)


def _module_of(fid):
    parts = fid.split("::")
    return "::".join(parts[:-1])


def _map_place(pl, lm):
    return {"l": lm(pl["l"]), "p": [("idx:%d" % lm(int(e[4:]))) if e.startswith("idx:") else e for e in pl["p"]]}


def _map_op(op, lm):
    if isinstance(op, dict) and op.get("k") in ("cp", "mv") and "pl" in op:
        o = dict(op)
        o["pl"] = _map_place(op["pl"], lm)
        return o
    return op


def _map_rv(rv, lm):
    r = dict(rv)
    k = rv["rv"]
    if k in ("use", "cast", "un", "repeat"):
        r["a"] = _map_op(rv["a"], lm)
    elif k in ("ref", "discr", "rawptr"):
        r["pl"] = _map_place(rv["pl"], lm)
    elif k == "agg":
        r["ops"] = [_map_op(x, lm) for x in rv["ops"]]
    elif k == "bin":
        r["a"] = _map_op(rv["a"], lm)
        r["b"] = _map_op(rv["b"], lm)
    return r


def _map_block(blk, lm, bm):
    nb = {"cleanup": blk["cleanup"], "stmts": [], "term": None}
    for s in blk["stmts"]:
        s2 = dict(s)
        if s["s"] == "assign":
            s2["lhs"] = _map_place(s["lhs"], lm)
            s2["rhs"] = _map_rv(s["rhs"], lm)
        nb["stmts"].append(s2)
    t = blk["term"]
    if t is not None:
        t2 = dict(t)
        k = t["t"]
        if k == "goto":
            t2["target"] = bm(t["target"])
        elif k == "switch":
            t2["discr"] = _map_op(t["discr"], lm)
            t2["targets"] = [[v, bm(b)] for v, b in t["targets"]]
            t2["otherwise"] = bm(t["otherwise"]) if t["otherwise"] is not None else None
        elif k == "assert":
            t2["cond"] = _map_op(t["cond"], lm)
            t2["target"] = bm(t["target"])
            t2["unwind"] = bm(t["unwind"]) if isinstance(t.get("unwind"), int) else t.get("unwind")
        elif k == "drop":
            t2["pl"] = _map_place(t["pl"], lm)
            t2["target"] = bm(t["target"])
            t2["unwind"] = bm(t["unwind"]) if isinstance(t.get("unwind"), int) else t.get("unwind")
        elif k == "call":
            t2["args"] = [_map_op(a, lm) for a in t["args"]]
            t2["dest"] = _map_place(t["dest"], lm)
            t2["target"] = bm(t["target"]) if t["target"] is not None else None
            t2["unwind"] = bm(t["unwind"]) if isinstance(t.get("unwind"), int) else t.get("unwind")
        nb["term"] = t2
    return nb


def _splice(caller_raw, b, callee_raw):
    """Inline callee at the call terminating block b of caller (both raw JSON dicts); returns nothing (mutates caller)."""
    t = caller_raw["blocks"][b]["term"]
    loff = len(caller_raw["locals"])
    boff = len(caller_raw["blocks"])
    ident = lambda x: x
    lm = lambda l: l + loff
    # continuation block index: after the callee's blocks
    cont = boff + len(callee_raw["blocks"])
    for loc in callee_raw["locals"]:
        caller_raw["locals"].append(dict(loc))
    span = t.get("span")
    for blk in callee_raw["blocks"]:
        nb = _map_block(blk, lm, lambda x: x + boff)
        tt = nb["term"]
        if tt is not None and tt["t"] == "return" and not nb["cleanup"]:
            nb["term"] = {"t": "goto", "target": cont, "span": tt.get("span")}
        caller_raw["blocks"].append(nb)
    # continuation: dest = move callee _0 ; goto original target
    cont_blk = {"cleanup": False, "stmts": [{"s": "assign", "lhs": copy.deepcopy(t["dest"]),
                                              "rhs": {"rv": "use", "a": {"k": "mv", "pl": {"l": loff, "p": []}}},
                                              "span": span, "macros": []}],
                "term": ({"t": "goto", "target": t["target"], "span": span} if t["target"] is not None else {"t": "unreachable", "span": span})}
    caller_raw["blocks"].append(cont_blk)
    # the caller applies `?` to the result: the callee's own `Err(..)` exits are error paths of the merged body
    tb = caller_raw["blocks"][t["target"]]["term"] if t["target"] is not None else None
    propagates = tb is not None and tb["t"] == "call" and (tb.get("callee") or "").endswith("Try::branch") and tb["args"] \
        and tb["args"][0].get("pl", {}).get("l") == t["dest"]["l"]
    # ... or returns it as its own result (tail call): `_0 = helper(..)` / `_t = helper(..); _0 = move _t`
    if not propagates and not t["dest"]["p"]:
        if t["dest"]["l"] == 0 or t["dest"]["l"] in caller_raw.get("err_ret_locals", ()):
            propagates = True
        elif t["target"] is not None:
            for st in caller_raw["blocks"][t["target"]]["stmts"][:2]:
                if st["s"] == "assign" and st["lhs"]["l"] == 0 and not st["lhs"]["p"] and st["rhs"]["rv"] == "use" \
                        and st["rhs"]["a"].get("pl", {}).get("l") == t["dest"]["l"]:
                    propagates = True
    if propagates:
        caller_raw.setdefault("err_ret_locals", []).append(loff)
    # argument passing
    for i, a in enumerate(t["args"]):
        caller_raw["blocks"][b]["stmts"].append({"s": "assign", "lhs": {"l": loff + 1 + i, "p": []}, "rhs": {"rv": "use", "a": copy.deepcopy(a)},
                                                 "span": span, "macros": []})
    caller_raw["blocks"][b]["term"] = {"t": "goto", "target": boff, "span": span}


def normalize(prog, protect=(), config="default"):
    """Inline every new (non-baseline), non-role, non-trait-impl function of the lib into its call sites.
    A new function that takes the place of a baseline function which has disappeared (same owner type, same module,
    same parameter and result types) is a *rename*, not a new helper, and is left alone.
    Returns the list of inlined function ids."""
    base = load_baseline(config)
    if base is None:
        return []
    protect = set(protect)
    new = [f for f in prog.fns.values() if f.crate == "abyssiniandb" and f.kind in ("Fn", "AssocFn") and f.id not in base
           and f.id not in protect and f.impl_trait is None and f.trait_default_of is None and f.blocks and len(f.blocks) <= MAX_BLOCKS]
    if not new:
        return []
    missing = {i: v for i, v in base.items() if i not in prog.fns}
    renamed = set()
    for f in sorted(new, key=lambda x: x.id):
        for gid, (owner, trait, inputs, output) in sorted(missing.items()):
            if owner == f.impl_self_adt and trait is None and inputs == f.inputs and output == f.output and _module_of(gid) == _module_of(f.id):
                renamed.add(f.id)
                del missing[gid]
                break
    new = [f for f in new if f.id not in renamed]
    if not new:
        return []
    new_ids = {f.id for f in new}
    done = []
    for _round in range(6):
        changed = False
        for caller in list(prog.fns.values()):
            if caller.crate != "abyssiniandb":
                continue
            sites = []
            for b, t in caller.calls():
                tg, kind = prog.targets(t, caller)
                if len(tg) == 1 and tg[0].id in new_ids and tg[0].id != caller.id and len(t["args"]) == tg[0].arg_count:
                    sites.append((b, tg[0]))
            if not sites or len(caller.blocks) > 4 * MAX_BLOCKS:
                continue
            raw = copy.deepcopy(caller.raw)
            for b, callee in sites:
                _splice(raw, b, callee.raw)
                prog.adopt_closures(caller.id, callee.id)
                if callee.id not in done:
                    done.append(callee.id)
            nf = Fn(caller.crate, raw)
            prog.replace_fn(nf)
            changed = True
        if not changed:
            break
    # a helper whose call sites were all inlined no longer exists as far as the rules are concerned
    callers = prog.callers()
    for hid in list(done):
        if not callers.get(hid):
            prog.remove_fn(hid)
    return done


def virtual_inline(prog, fn, callee_pred, rounds=3):
    """A copy of `fn` with every call to a lib function selected by callee_pred(callee Fn) spliced in (the program is
    not modified).  Lets a rule look at `caller + its small private wrapper` as one body, so that it does not matter
    whether the wrapper exists or was written out in place."""
    cur = fn
    for _ in range(rounds):
        sites = []
        for b, t in cur.calls():
            tg, kind = prog.targets(t, cur)
            if len(tg) == 1 and tg[0].id != fn.id and tg[0].crate == "abyssiniandb" and tg[0].blocks and len(t["args"]) == tg[0].arg_count and callee_pred(tg[0]):
                sites.append((b, tg[0]))
        if not sites:
            break
        raw = copy.deepcopy(cur.raw)
        for b, callee in sites:
            _splice(raw, b, callee.raw)
        cur = Fn(fn.crate, raw)
    return cur
