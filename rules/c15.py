"""C15 - read-only calls have no side effects on contents or files."""
from .model import short, Effects
from .roles import Roles, io_effects, WRITE_ATOMS, INNER, FILEDBINNER
from .util import where, calls_to, region_dominated
from . import flushpath as fp

EXPLANATION = (
    "Purity of the read-only API decided on the resolved call graph (abyssiniandb + rabuf + vu64 bodies): the may-effect "
    "summary of every read-only entry point contains no write-class primitive (a buffered chunk marked dirty, an explicit "
    "set_len) and no store to the map's dirty flag; and in flush/sync_all/sync_data every per-file write-back call is "
    "control-dependent on the dirty flag being true.  Positive control: the same query on put_kt/del_kt must report "
    "write effects.")
NOT_DECIDED = ("rabuf's seek extends the file when the target lies beyond the current end (classified SEEK_EXTEND): whether "
               "a read path can seek past the end depends on run-time offsets and is not decided; write-back of already "
               "dirty chunks triggered by buffer eviction during reads (rabuf internals) changes no logical content and "
               "is not counted; byte-for-byte equality of the files after close.")
ASSUMPTIONS = ["a chunk's `dirty = true` store and File::set_len are the only ways buffered file content changes "
               "(derived from rabuf's extracted bodies)", "rabuf::RaBuf<T> is only instantiated with std::fs::File (checked)"]

OBJSAFE = "abyssiniandb::DbXxxObjectSafe"
BASE = "abyssiniandb::DbXxxBase"
DBXXX = "abyssiniandb::DbXxx"
DBMAP = "abyssiniandb::DbMap"
CHECK = "abyssiniandb::filedb::CheckFileDbMap"
ITER_TYPES = ["DbXxxIterMut", "DbXxxIter", "DbXxxIntoIter", "DbXxxKeys", "DbXxxValues"]


def read_only_roots(prog):
    roots = []

    def add(group, fns):
        for f in fns:
            roots.append((group, f))
    for owner in (INNER, fp.FILEDBMAP):
        for m in ("get_kt", "includes_key_kt"):
            add("objsafe", prog.find(name=m, self_adt=owner, trait=OBJSAFE))
        for m in ("len", "read_fill_buffer"):
            add("base", prog.find(name=m, self_adt=owner, trait=BASE))
        add("check", [f for f in prog.fns.values() if f.impl_self_adt == owner and f.impl_trait == CHECK])
    add("default", [f for f in prog.fns.values() if f.trait_default_of == BASE and f.name == "is_empty"])
    for m in ("get", "get_string", "bulk_get", "bulk_get_string", "includes_key"):
        add("default", [f for f in prog.fns.values() if f.trait_default_of == DBXXX and f.name == m])
    add("iter-ctor", [f for f in prog.fns.values() if f.impl_self_adt == fp.FILEDBMAP and f.impl_trait == DBMAP])
    add("iter-ctor", [f for f in prog.fns.values() if f.name == "into_iter" and "FileDbMap<" in (f.impl_self or "")])
    for ty in ITER_TYPES:
        adt = "abyssiniandb::filedb::inner::dbxxx::" + ty
        add("iter", [f for f in prog.fns.values() if f.impl_self_adt == adt and f.name in ("next", "size_hint", "new", "next_piece_offset")])
    add("path", prog.find(name="path", self_adt="abyssiniandb::filedb::FileDb"))
    add("path", prog.find(name="path", self_adt=FILEDBINNER))
    add("is_dirty", prog.find(name="is_dirty", self_adt=INNER) + prog.find(name="is_dirty", self_adt=fp.FILEDBMAP))
    return roots


def _check_own(ctx):
    prog = ctx.prog
    io = io_effects(prog)
    deff = Effects(prog, lambda p, f, t: (), fp.dirty_label_stmt)
    n, bad = prog.check_rabuf_instantiation()
    ctx.check(n > 0 and not bad, "assumption", "rabuf-instantiation", "rabuf::RaBuf instantiated with %s" % sorted(bad))
    roots = read_only_roots(prog)
    groups = {}
    for g, f in roots:
        groups.setdefault(g, []).append(f)
    floors = {"objsafe": 4, "base": 4, "check": 16, "default": 6, "iter-ctor": 7, "iter": 12, "path": 2}
    for g, n_ in floors.items():
        ctx.floor("read-only-pure", g + " entry points", len(groups.get(g, [])), n_)
    for g, f in sorted(roots, key=lambda x: x[1].id):
        ctx.touch(f, len(f.blocks))
        w = io.may[f.id] & WRITE_ATOMS
        d = deff.may[f.id]
        inst = short(f.id)
        if ctx.check(not w, "read-only-pure", inst,
                     "read-only call %s can reach a write-class effect %s (it can modify file contents)" % (f.id, sorted(w)),
                     where=_witness(prog, io, f, w), expected="no chunk is marked dirty and no set_len is reachable"):
            pass
        ctx.check(not d, "read-only-no-dirty-store", inst,
                  "read-only call %s can store to the map's dirty flag (%s)" % (f.id, sorted(d)), where=where(f))
    ctx.sample({"read_only_entry_points": len(roots), "groups": {g: len(v) for g, v in groups.items()},
                "may_effects_of_get_kt": sorted(io.may[groups["objsafe"][0].id]) if groups.get("objsafe") else None})
    # positive control: the same query fires on the mutators
    for m in ("put_kt", "del_kt"):
        fs = prog.find(name=m, self_adt=INNER, trait=OBJSAFE)
        ctx.check(len(fs) == 1 and bool(io.may[fs[0].id] & WRITE_ATOMS), "positive-control", m,
                  "the purity query does not see any write effect in %s: the effect analysis is blind" % m)
    # write-back gated by the dirty flag
    fields = fp.file_fields(prog)
    for m in fp.SYNC_METHODS:
        fn = fp.inner_base_method(prog, m)
        if not ctx.check(fn is not None, "writeback-gated", m + ":anchor", "inner map has no unique DbXxxBase::%s" % m):
            continue
        sp = fp.dirty_split(prog, fn)
        if not ctx.check(len(sp) == 1, "writeback-gated", m + ":split", "no unique dirty test in %s" % m, where=where(fn)):
            continue
        region = region_dominated(fn, sp[0]["true"])
        for fname, fty in fields:
            for t_fn in prog.find(name=m, self_adt=fty, pred=lambda f: f.impl_trait is None):
                for b, t in calls_to(prog, fn, target_fn=t_fn):
                    ctx.check(b in region, "writeback-gated", "%s:%s" % (m, fname),
                              "%s() writes back the `%s` file even when the map is not dirty" % (m, fname), where=where(fn, b))
        w = io.may[fn.id] & WRITE_ATOMS
        ctx.check(not w, "sync-no-logical-write", m, "%s can reach a logical write effect %s" % (m, sorted(w)), where=where(fn))


def _witness(prog, io, f, w):
    """A call chain from f to a function that directly performs one of the effects in w."""
    if not w:
        return None
    chain = [f]
    cur = f
    seen = {f.id}
    for _ in range(12):
        nxt = None
        for b, t in cur.calls():
            if io.own_labels(cur, b) & w:
                return " -> ".join(short(x.id) for x in chain) + " @ " + where(cur, b)
            for x in prog.targets(t, cur)[0]:
                if x.id not in seen and io.may[x.id] & w:
                    nxt = x
                    break
            if nxt:
                break
        for b in range(len(cur.blocks)):
            if not cur.is_cleanup(b) and io.own_labels(cur, b) & w:
                return " -> ".join(short(x.id) for x in chain) + " @ " + where(cur, b)
        if not nxt:
            for c in prog.closures_of(cur):
                if c.id not in seen and io.may[c.id] & w:
                    nxt = c
                    break
        if not nxt:
            break
        chain.append(nxt)
        seen.add(nxt.id)
        cur = nxt
    return " -> ".join(short(x.id) for x in chain)


def check(ctx):
    _check_own(ctx)
    from .engine import import_rules
    # a read path that seeks past the end extends the file: the structural preconditions for staying inside the table
    import_rules(ctx, "c04", {"scan-compensation", "layout-agreement", "scan-step", "scan-state", "io-positioned"})
    import_rules(ctx, "c07", {"stored-count-wins"})
    import_rules(ctx, "c17", {"slot-walk"})
    # rabuf extends a file when a seek target lies beyond its end: slot ends must be computed from slot starts
    import_rules(ctx, "c09", {"slot-end-from-slot-start"})
    # a field read at the wrong position sends the next seek anywhere (rabuf extends the file on a seek past its end)
    import_rules(ctx, "c06", {"free-slot-field-position"})
    import_rules(ctx, "c05", {"field-position"})
