"""C16 - a failed flush is reported and loses nothing."""
from .model import short, const_val
from .roles import Roles, INNER, FILEDBINNER
from .util import (is_io_result, io_result_sites, reachable_fns, where, line_of, enum_switches, region_dominated, origins, calls_to)
from . import flushpath as fp

EXPLANATION = (
    "Error discipline on the flush path, decided on MIR by classifying how every io::Result-typed call result is "
    "consumed (def-use chase): `?`, returned, matched with the error re-returned, unwrap/expect, swallowed "
    "(.ok()/is_ok()/unwrap_or..), or dropped.  (1) In the call closure of the map-level flush/sync_all/sync_data and "
    "of FileDb::sync_all/sync_data (abyssiniandb and rabuf bodies) no io::Result is dropped, swallowed or unwrapped. "
    "(2) The dirty flag is cleared only in a block dominated by all three per-file calls (so a failed flush is retried "
    "in full).  (3) Crate-wide inventory: dropped results equal the allow-list (best-effort truncation on a path that "
    "already returns the original error) and unwrap() on io::Result equals the inventory of places without an error "
    "channel.  (4) rabuf's Chunk::write clears a chunk's dirty bit only on the Ok arm of its write.")
NOT_DECIDED = ("that the in-memory view stays correct after a failure and that a later flush makes every update durable "
               "(run-time state of the buffers); which OS errors can occur.")
ASSUMPTIONS = ["std's Result combinators behave as documented (map/map_err pass the error through, ok()/is_ok() discard it)"]

# (function name, callee name) -> reason.  Sites where an io::Result is deliberately discarded.
DROPPED_ALLOW = {
    ("abyssiniandb::filedb::inner::key::VarFileKeyCache::<KT>::write_piece", "set_file_length"):
        "best-effort truncation while already returning the original write error",
    ("abyssiniandb::filedb::inner::val::VarFileValueCache::write_piece", "set_file_length"):
        "best-effort truncation while already returning the original write error",
}
# unwrap()/expect() on an io::Result is tolerated only where the enclosing function has no error channel at all: its
# own return type is not io::Result (Iterator::next, the DbMap iterator constructors, the slot walkers).  A function
# that *can* return an io::Error must propagate it.  (Structural, so that renaming such a function is not an alarm.)
def no_error_channel(prog, fn):
    f = fn
    while f.kind == "Closure" and f.parent in prog.fns:
        f = prog.fns[f.parent]
    return not is_io_result(f.output)


GOOD = {"try", "returned", "match-returned"}


def cname(t):
    return (t.get("callee") or "?").rsplit("::", 1)[-1]


def _check_own(ctx):
    prog = ctx.prog
    R = Roles(prog)

    # ---- clause 1: the flush closure ------------------------------------------------
    roots = []
    for m in fp.SYNC_METHODS:
        roots += prog.find(name=m, self_adt=INNER, trait=fp.BASE)
        roots += prog.find(name=m, self_adt=fp.FILEDBMAP, trait=fp.BASE)
    for m in ("sync_all", "sync_data"):
        roots += prog.find(name=m, self_adt=FILEDBINNER)
        roots += prog.find(name=m, self_adt="abyssiniandb::filedb::FileDb")
    ctx.floor("flush-closure", "flush-path root methods", len(roots), 10)
    # the registry getters used by applay_all construct handles through db_map_* (lookup only); map creation is not part of the flush path
    closure = reachable_fns(prog, roots, crates=("abyssiniandb", "rabuf"))
    n_sites = 0
    for fn in sorted(closure.values(), key=lambda f: f.id):
        sites = io_result_sites(prog, fn)
        ctx.touch(fn, len(sites))
        for b, t, fate in sites:
            n_sites += 1
            inst = "%s->%s" % (short(fn.id), cname(t))
            if fate <= GOOD:
                ctx.ok("flush-no-dropped-result", inst, ",".join(sorted(fate)))
            elif no_error_channel(prog, fn) and fate <= GOOD | {"unwrap"}:
                ctx.ok("flush-no-dropped-result", inst, "unwrap in a function without an error channel")
            else:
                ctx.fail("flush-no-dropped-result", inst,
                         "on the flush/sync path the io::Result of %s is %s: an OS error there is not reported to the caller"
                         % (t.get("callee"), sorted(fate - GOOD)), where=where(fn, b),
                         expected="`?`, return, or match with the error re-returned")
    ctx.floor("flush-no-dropped-result", "io::Result call sites in the flush closure", n_sites, 30)
    ctx.sample({"flush_closure_functions": sorted(short(f) for f in closure)[:60], "io_result_sites": n_sites})

    # ---- clause 2: clear-last (shared with C03.2) -------------------------------------
    fields = fp.file_fields(prog)
    for m in fp.SYNC_METHODS:
        fn = fp.inner_base_method(prog, m)
        if not ctx.check(fn is not None, "clear-after-all", m + ":anchor", "inner map type has no unique DbXxxBase::%s" % m):
            continue
        call_blocks = []
        for fname, fty in fields:
            for t_fn in prog.find(name=m, self_adt=fty, pred=lambda f: f.impl_trait is None):
                call_blocks += [b for b, t in calls_to(prog, fn, target_fn=t_fn)]
        clears = [b for b, v in fp.dirty_stores(fn, prog) if v is False]
        err = fn.error_blocks()
        for b in clears:
            ok = len(call_blocks) >= len(fields) >= 3 and all(cb != b and fn.dominates(cb, b) for cb in call_blocks) and b not in err
            ctx.check(ok, "clear-after-all", m,
                      "%s marks the map clean before every file has been flushed successfully; after an error the next "
                      "flush skips files that still hold unwritten data" % m, where=where(fn, b))
        ctx.check(bool(clears), "clear-after-all", m + ":exists", "%s never clears the dirty flag" % m)

    # ---- clause 3: crate-wide inventory --------------------------------------------------
    dropped, unwraps, other = [], [], []
    total = 0
    for fn in prog.fns.values():
        if fn.crate != "abyssiniandb":
            continue
        for b, t, fate in io_result_sites(prog, fn):
            total += 1
            bad = fate - GOOD
            if not bad:
                continue
            key = (fn.id, cname(t))
            if bad <= {"dropped"}:
                dropped.append((key, fn, b))
            elif bad <= {"unwrap"}:
                unwraps.append((key, fn, b))
            else:
                other.append((key, fn, b, bad))
    ctx.floor("inventory", "io::Result call sites in the lib", total, 400)
    from . import poscontrol
    poscontrol.result_fate_control(ctx)
    setlen = R.get("SET_LEN")
    for key, fn, b in dropped:
        # tolerated: best-effort truncation (SET_LEN) on a path that is already returning the original write error
        t = fn.term(b)
        is_setlen = setlen is not None and any(x.id == setlen.id for x in prog.targets(t, fn)[0])
        on_err_path = not fn.success_reach_return(b, ())
        ctx.check(is_setlen and on_err_path, "no-dropped-result", "%s->%s" % (short(key[0]), key[1]),
                  "the io::Result of %s is dropped in %s (only a best-effort truncation on a path that already returns the original error is tolerated)" % (key[1], fn.id), where=where(fn, b))
    for key, fn, b in unwraps:
        ctx.check(no_error_channel(prog, fn), "no-new-unwrap", "%s->%s" % (short(key[0]), key[1]),
                  "io::Result of %s is unwrap()ed in %s although that function returns io::Result itself: an OS error becomes "
                  "a panic instead of an Err" % (key[1], fn.id), where=where(fn, b))
    ctx.floor("no-new-unwrap", "unwrap sites on io::Result (all in functions without an error channel)", len(unwraps), 10)
    for key, fn, b, bad in other:
        ctx.fail("no-swallowed-result", "%s->%s" % (short(key[0]), key[1]),
                 "the io::Result of %s is %s in %s" % (key[1], sorted(bad), fn.id), where=where(fn, b))
    ctx.sample({"inventory": {"total": total, "dropped": len(dropped), "unwrap": len(unwraps), "other": len(other)}})

    # ---- clause 4: rabuf Chunk::write clears dirty only on Ok ----------------------------
    cw = [f for f in prog.fns.values() if f.crate == "rabuf" and f.name == "write" and f.impl_self_adt == "rabuf::Chunk"]
    if ctx.check(len(cw) == 1, "chunk-clean-on-ok", "anchor", "rabuf::Chunk::write not found (dependency changed?)"):
        f = cw[0]
        ctx.touch(f)
        cleans = []
        for b, blk in enumerate(f.blocks):
            for s in blk["stmts"]:
                if s["s"] == "assign" and s["lhs"]["p"] and s["lhs"]["p"][-1] == "f:rabuf::Chunk.dirty" \
                        and s["rhs"]["rv"] == "use" and const_val(s["rhs"]["a"]) is False:
                    cleans.append(b)
        ok_entries = []
        for sw in enum_switches(prog, f):
            if any(o.kind == "call" and o.data.get("callee") == "std::io::Write::write_all" for o in sw["src"]):
                if 0 in sw["targets"]:
                    ok_entries.append(sw["targets"][0])
        good = bool(cleans) and bool(ok_entries) and all(any(e in f.dominators().get(b, ()) for e in ok_entries) for b in cleans)
        ctx.check(good, "chunk-clean-on-ok", "rabuf::Chunk::write",
                  "rabuf's Chunk::write marks a chunk clean on a path that is not the Ok arm of its write_all: a failed "
                  "write-back would lose the chunk's data for later flushes", where=where(f))


def check(ctx):
    _check_own(ctx)
    from .engine import import_rules
    import_rules(ctx, "c03", {"dirty-raised", "sync-chain", "db-sync-visits-every-map", "db-sync-method", "db-sync-registries", "db-sync-result"})
