"""C05 - the on-disk files always decode to a consistent structure (invariant-maintenance wiring)."""
from .model import short, const_val, Tracer
from .roles import Roles, role_effects, INNER, HTXFILE, HTXCACHE
from .util import (calls_to, origins, where, is_call_to, lookup_split, region_dominated, find_bool_split, chase,
                   in_cycle, const_origin)
from .fields import pf, fq


def _LC(prog, R):
    from .c01 import lookup_components
    return lookup_components(prog, R)

from . import c04bitmap

EXPLANATION = (
    "Invariant-maintenance wiring decided on MIR by effect pairing and origin tracing: (1) the stored item count is "
    "only written by count-up/count-down, which are only reached from the insert arm of put resp. the found arm of "
    "delete, once each; (2) a key record points at its own value record (insert: the value offset given to the key "
    "allocator is the offset of the value record just allocated; overwrite: a moved value record's new offset is stored "
    "into the key record which is then rewritten; delete: the value record freed is the one the found key record points "
    "to and the key record freed is the found one); (3) chain integrity (insert links the new record in front of the "
    "current bucket head and makes it the head of the same hash's bucket; delete unlinks via bucket head or predecessor "
    "before freeing); (4) the bucket index is hash % cached-bucket-count in both the head reader and the head writer; "
    "(5) every bucket-head write maintains the occupancy bitmap (bitmap configurations); (6) key and value offsets are "
    "distinct phantom types; (7) the link / value-offset readers return, through wrappers, only the field they read (no "
    "constant, no parameter), payload reads take exactly the stored length and nothing in the lib transfers data with a "
    "primitive that may stop short (Read::read / Write::write).")
NOT_DECIDED = ("acyclicity, in-bounds offsets and 'no key twice' as facts about all reachable states; the independent "
               "decoder the property envisages is a dynamic oracle.")
ASSUMPTIONS = ["flow-insensitive origin tracing: a rule accepts a value only if *all* its possible origins are the expected one"]

OBJSAFE = "abyssiniandb::DbXxxObjectSafe"


def role_origin(prog, R, fn, os_, role, last_proj=None):
    f = R.get(role)
    if not (f and os_):
        return False
    for o in os_:
        if not (is_call_to(prog, fn, o, f) and o.proj[:1] == ("?ok",)):
            return False
        if last_proj is not None and (not o.proj or not o.proj[-1].endswith(last_proj)):
            return False
    return True


def _check_own(ctx):
    prog = ctx.prog
    R = Roles(prog)
    lookup = ctx.anchor("LOOKUP", lambda p: R.need("LOOKUP"))
    put = prog.find(name="put_kt", self_adt=INNER, trait=OBJSAFE)
    dele = prog.find(name="del_kt", self_adt=INNER, trait=OBJSAFE)
    if not (lookup and ctx.check(len(put) == 1 and len(dele) == 1, "anchor", "put/del", "put_kt / del_kt of the inner map not found")):
        return
    put, dele = put[0], dele[0]
    ctx.touch(put, len(put.blocks))
    ctx.touch(dele, len(dele.blocks))
    n_origin = 0

    # ---- (1) count <-> links -------------------------------------------------------------
    callers = prog.callers()
    cu, cd, cw = R.need("CNT_UP"), R.need("CNT_DOWN"), R.need("CNT_WRITE")
    who_cw = sorted({f.id for f, b in callers.get(cw.id, [])})
    ctx.check(set(who_cw) <= {cu.id, cd.id} and len(who_cw) == 2, "count-writers", "CNT_WRITE",
              "the stored item count is written by %s; only count-up and count-down may write it" % [short(x) for x in who_cw], where=where(cw))
    who_cu = sorted({f.id for f, b in callers.get(cu.id, [])})
    who_cd = sorted({f.id for f, b in callers.get(cd.id, [])})
    _who_cu = who_cu
    ctx.check(who_cd == [dele.id], "count-writers", "CNT_DOWN", "count-down is called from %s, expected only del_kt" % [short(x) for x in who_cd])
    # count-up adds one to the stored count, count-down subtracts one
    for fn, op, nm in ((cu, ("Add", "AddWithOverflow"), "CNT_UP"), (cd, ("Sub", "SubWithOverflow"), "CNT_DOWN")):
        ctx.touch(fn)
        w = calls_to(prog, fn, target_fn=cw)
        ok = False
        for b, t in w:
            for o in origins(prog, fn, t["args"][1], at=b):
                oo = o
                if oo.kind == "bin" and oo.data["op"] in op and const_val(oo.data["b"]) == 1:
                    a = origins(prog, fn, oo.data["a"], at=oo.block)
                    ok = role_origin(prog, R, fn, a, "CNT_READ_RAW")
        ctx.check(len(w) == 1 and ok, "count-step", nm, "%s does not write (stored count %s 1)" % (nm, "+" if nm == "CNT_UP" else "-"), where=where(fn))
    sp_put = lookup_split(prog, put, lookup)
    sp_del = lookup_split(prog, dele, lookup)
    if not ctx.check(len(sp_put) == 1 and len(sp_del) == 1, "anchor", "lookup-split", "cannot find the match on the lookup result in put_kt/del_kt"):
        return
    _, put_some, put_none = sp_put[0]
    _, del_some, del_none = sp_del[0]
    r_ins, r_ovw = region_dominated(put, put_none), region_dominated(put, put_some)
    r_del = region_dominated(dele, del_some)

    for b, t in calls_to(prog, dele, target_fn=cd):
        ctx.check(b in r_del and not in_cycle(dele, b), "count-arm", "CNT_DOWN", "count-down happens outside the found arm of delete (or in a loop)", where=where(dele, b))

    # ---- (2)/(3) insert ---------------------------------------------------------------------
    # the insert arm may be written inline in put_kt or extracted into one helper called from that arm
    ins_fn, ins_region, pm = put, r_ins, {"key": 2, "value": 3, "hash": None}
    if not [1 for b, t in calls_to(prog, put, target_fn=R.need("KEY_ALLOC")) if b in r_ins]:
        eff_i = role_effects(prog, R, ["KEY_ALLOC"])
        helpers = []
        for b in sorted(r_ins):
            t = put.blocks[b]["term"]
            if t and t["t"] == "call":
                for x in prog.targets(t, put)[0]:
                    if x.impl_self_adt == INNER and "KEY_ALLOC" in eff_i.must.get(x.id, set()):
                        helpers.append((x, b, t))
        if len(helpers) == 1:
            h, hb, ht = helpers[0]
            from .c01 import hash_from_key
            pm = {"key": None, "value": None, "hash": None}
            for i, a in enumerate(ht["args"]):
                o = origins(prog, put, a, at=hb)
                if o and all(x.kind == "param" and x.data == 2 and not x.proj for x in o):
                    pm["key"] = i + 1
                elif o and all(x.kind == "param" and x.data == 3 and not x.proj for x in o):
                    pm["value"] = i + 1
                elif hash_from_key(prog, put, a, 2):
                    pm["hash"] = i + 1
            only_here = {f.id for f, bb in prog.callers().get(h.id, [])} == {put.id}
            if ctx.check(bool(pm["key"] and pm["value"] and pm["hash"] and only_here and not in_cycle(put, hb)), "insert-links", "helper-arguments",
                         "the insert helper %s is not called once from the insert arm with (hash of the key, key, value)" % h.name, where=where(put, hb)):
                ins_fn, ins_region = h, set(range(len(h.blocks)))
                ctx.touch(h, len(h.blocks))
                ctx.note("insert arm extracted into helper %s" % h.id)
    ka = [(b, t) for b, t in calls_to(prog, ins_fn, target_fn=R.need("KEY_ALLOC")) if b in ins_region]
    is_key = lambda os_: bool(os_) and all(o.kind == "param" and o.data == pm["key"] for o in os_)
    is_val = lambda os_: bool(os_) and all(o.kind == "param" and o.data == pm["value"] for o in os_)
    if ctx.check(len(ka) == 1, "insert-links", "one-key-alloc", "expected exactly one key allocation on the insert arm of put", where=where(ins_fn)):
        b, t = ka[0]
        ctx.check(is_key(origins(prog, ins_fn, t["args"][1], at=b)), "insert-links", "key-is-callers-key",
                  "the key stored by put is not the key parameter", where=where(ins_fn, b))
        vo = origins(prog, ins_fn, t["args"][2], at=b)
        n_origin += 1
        ctx.check(role_origin(prog, R, ins_fn, vo, "VAL_ALLOC", pf(prog, "ValuePiece", "offset")), "insert-links", "key->own-value",
                  "the value offset stored in a new key record is not the offset of the value record allocated by the same put (%s)" % vo,
                  where=where(ins_fn, b), expected="VAL_ALLOC(..)?.offset")
        nx = origins(prog, ins_fn, t["args"][3], at=b)
        n_origin += 1
        ctx.check(role_origin(prog, R, ins_fn, nx, "HEAD_READ"), "insert-links", "next-is-old-head",
                  "a new key record's next link is not the current head of its bucket (%s): the rest of the chain is lost" % nx, where=where(ins_fn, b))
        for vb, vt in calls_to(prog, ins_fn, target_fn=R.need("VAL_ALLOC")):
            ctx.check(is_val(origins(prog, ins_fn, vt["args"][1], at=vb)), "insert-links", "value-is-callers-value",
                      "the value stored by put is not the value parameter", where=where(ins_fn, vb))
    hw = [(b, t) for b, t in calls_to(prog, ins_fn, target_fn=R.need("HEAD_WRITE")) if b in ins_region]
    if ctx.check(len(hw) == 1, "insert-links", "one-head-write", "expected exactly one bucket-head write on the insert arm", where=where(ins_fn)):
        b, t = hw[0]
        o = origins(prog, ins_fn, t["args"][2], at=b)
        n_origin += 1
        ctx.check(role_origin(prog, R, ins_fn, o, "KEY_ALLOC", pf(prog, "KeyPiece", "offset")), "insert-links", "head-is-new-record",
                  "the bucket head written by an insert is not the offset of the key record just allocated (%s)" % o, where=where(ins_fn, b))
        if ka:
            ctx.check(ins_fn.dominates(ka[0][0], b), "insert-links", "alloc-before-head", "the bucket head is written before the key record exists", where=where(ins_fn, b))
        if ins_fn is not put:
            for bb, tt in calls_to(prog, ins_fn, target_fn=R.need("HEAD_READ")) + hw:
                ho = origins(prog, ins_fn, tt["args"][1], at=bb)
                ctx.check(bool(ho) and all(x.kind == "param" and x.data == pm["hash"] for x in ho), "insert-links", "helper-uses-its-hash",
                          "the insert helper addresses a bucket with something other than the hash it was given", where=where(ins_fn, bb))
    ctx.check(_who_cu == [ins_fn.id], "count-writers", "CNT_UP", "count-up is called from %s, expected only the insert path of put_kt" % [short(x) for x in _who_cu])
    for b, t in calls_to(prog, ins_fn, target_fn=cu):
        ctx.check(b in ins_region and not in_cycle(ins_fn, b), "count-arm", "CNT_UP", "count-up happens outside the insert arm of put (or in a loop)", where=where(ins_fn, b))

    # ---- (2) overwrite helper -----------------------------------------------------------------
    ovw = ctx.anchor("OVERWRITE", lambda p: R.need("OVERWRITE"))
    if ovw:
        ctx.touch(ovw, len(ovw.blocks))
        for b, t in calls_to(prog, put, target_fn=ovw):
            o = origins(prog, put, t["args"][1], at=b)
            ctx.check(bool(o) and all(is_call_to(prog, put, x, lookup) and x.proj[-1:] == (_LC(prog, R)[0],) for x in o), "overwrite-links", "of-found-key",
                      "overwrite is applied to an offset that is not the found key record (%s)" % o, where=where(put, b))
            v = origins(prog, put, t["args"][2], at=b)
            ctx.check(bool(v) and all(x.kind == "param" and x.data == 3 for x in v), "overwrite-links", "value-is-callers-value",
                      "the value written by an overwrite is not the value parameter", where=where(put, b))
        kr = calls_to(prog, ovw, target_fn=R.need("KEY_READ"))
        vr = calls_to(prog, ovw, target_fn=R.need("VAL_REWRITE"))
        kw = calls_to(prog, ovw, target_fn=R.need("KEY_REWRITE"))
        ctx.check(len(kr) == 1 and len(vr) == 1, "overwrite-links", "shape", "overwrite helper: expected one key read and one value rewrite", where=where(ovw))
        # the value record rewritten is the one the key record points to
        rd = calls_to(prog, ovw, target_fn=R.need("VAL_READ_PIECE_W"))
        for b, t in rd:
            o = origins(prog, ovw, t["args"][1], at=b)
            n_origin += 1
            ctx.check(role_origin(prog, R, ovw, o, "KEY_READ", pf(prog, "KeyPiece", "value_offset")), "overwrite-links", "value-of-own-key",
                      "the value record rewritten is not the one the key record points to (%s)" % o, where=where(ovw, b))
        # moved value record => key record updated and rewritten
        moved = find_bool_split(prog, ovw, lambda o: o.kind == "call" and (o.data.get("callee") or "") in ("core::cmp::PartialEq::eq", "core::cmp::PartialEq::ne")
                                and "Piece<abyssiniandb::filedb::inner::semtype::Value>" in (o.data["gargs"][0] if o.data.get("gargs") else ""))
        if ctx.check(len(moved) == 1, "overwrite-links", "moved-split", "cannot find the `value record moved?` test in the overwrite helper", where=where(ovw)):
            sw = moved[0]
            callee = sw["cond"][0].data["callee"]
            moved_entry = sw["false"] if callee.endswith("::eq") else sw["true"]
            reg = region_dominated(ovw, moved_entry)
            stores = []
            for b, blk in enumerate(ovw.blocks):
                for s in blk["stmts"]:
                    if s["s"] == "assign" and s["lhs"]["p"] and s["lhs"]["p"][-1].endswith(pf(prog, "KeyPiece", "value_offset")):
                        stores.append((b, s))
            n_origin += 1
            good = len(stores) == 1 and stores[0][0] in reg and role_origin(prog, R, ovw, origins(prog, ovw, stores[0][1]["rhs"].get("a", {}), at=stores[0][0]), "VAL_REWRITE", pf(prog, "ValuePiece", "offset"))
            ctx.check(good, "overwrite-links", "moved-value-relinked",
                      "when an overwrite moves the value record, the key record is not updated with the new value offset", where=where(ovw, moved_entry))
            kws = [b for b, t in kw if b in reg]
            ctx.check(bool(kws) and not ovw.success_reach_return(moved_entry, kws) and (not stores or all(ovw.dominates(stores[0][0], b) for b in kws)),
                      "overwrite-links", "moved-value-key-rewritten",
                      "when an overwrite moves the value record, the updated key record is not written back", where=where(ovw, moved_entry))

    # ---- (2)/(3) delete ------------------------------------------------------------------------
    kread = [(b, t) for b, t in calls_to(prog, dele, target_fn=R.need("KEY_READ")) if b in r_del]
    found_reads = [(b, t) for b, t in kread if all(is_call_to(prog, dele, x, lookup) and x.proj[-1:] == (_LC(prog, R)[0],) for x in origins(prog, dele, t["args"][1], at=b))]
    ctx.check(len(found_reads) == 1, "delete-links", "reads-found-record", "delete does not read the found key record exactly once", where=where(dele))

    def from_found(os_, field):
        if not os_:
            return False
        for o in os_:
            if not (is_call_to(prog, dele, o, R.need("KEY_READ")) and o.proj[:1] == ("?ok",) and o.proj[-1].endswith(field)):
                return False
            if found_reads and o.block != found_reads[0][0]:
                return False
        return True
    vf = calls_to(prog, dele, target_fn=R.need("VAL_FREE"))
    kf = calls_to(prog, dele, target_fn=R.need("KEY_FREE"))
    for b, t in vf:
        n_origin += 1
        ctx.check(from_found(origins(prog, dele, t["args"][1], at=b), pf(prog, "KeyPiece", "value_offset")), "delete-links", "frees-own-value",
                  "the value record freed by delete is not the one the found key record points to", where=where(dele, b))
    for b, t in kf:
        o = origins(prog, dele, t["args"][1], at=b)
        n_origin += 1
        ctx.check(bool(o) and all(is_call_to(prog, dele, x, lookup) and x.proj[-1:] == (_LC(prog, R)[0],) for x in o), "delete-links", "frees-found-key",
                  "the key record freed by delete is not the found one (%s)" % o, where=where(dele, b))
    # head arm / inner arm split on previous.is_zero()
    from .util import zero_splits
    ps = zero_splits(prog, dele, lambda a: all(is_call_to(prog, dele, x, lookup) and x.proj[-1:] == (_LC(prog, R)[1],) for x in a))
    via_helper = _unlink_via_helper(prog, R, dele, lookup, r_del, from_found) if not ps else None
    if via_helper:
        # the unlink is delegated to a re-link helper whose contract (rules/relinkh.py) is decided on its body:
        # h(hash of this key, predecessor of the found record, successor of the found record)
        hb, why = via_helper
        n_origin += 3
        ctx.check(why is None, "delete-links", "helper-unlink", "delete hands the wrong values to its re-link helper: %s" % why, where=where(dele, hb))
        for b, t in vf + kf:
            ctx.check(dele.dominates(hb, b), "delete-links", "unlink-before-free:%s" % t["callee"].rsplit("::", 1)[-1],
                      "a record is freed before it was unlinked from its chain", where=where(dele, b))
    elif ctx.check(len(ps) == 1, "delete-links", "head-or-inner-split", "cannot find the `previous.is_zero()` split in delete", where=where(dele)):
        head_e, inner_e = ps[0]["true"], ps[0]["false"]
        r_head, r_inner = region_dominated(dele, head_e), region_dominated(dele, inner_e)
        hws = [(b, t) for b, t in calls_to(prog, dele, target_fn=R.need("HEAD_WRITE")) if b in r_head]
        ok = len(hws) == 1 and from_found(origins(prog, dele, hws[0][1]["args"][2], at=hws[0][0]), pf(prog, "KeyPiece", "next"))
        n_origin += 1
        ctx.check(ok and not dele.success_reach_return(head_e, [b for b, _ in hws]), "delete-links", "head-unlink",
                  "deleting the first record of a chain does not make the bucket head point at the deleted record's successor", where=where(dele, head_e))
        # inner arm
        prd = [(b, t) for b, t in kread if b in r_inner and all(is_call_to(prog, dele, x, lookup) and x.proj[-1:] == (_LC(prog, R)[1],) for x in origins(prog, dele, t["args"][1], at=b))]
        stores = []
        for b, blk in enumerate(dele.blocks):
            if b in r_inner:
                for s in blk["stmts"]:
                    if s["s"] == "assign" and s["lhs"]["p"] and s["lhs"]["p"][-1].endswith(pf(prog, "KeyPiece", "next")):
                        stores.append((b, s))
        n_origin += 1
        ok = len(prd) == 1 and len(stores) == 1 and from_found(origins(prog, dele, stores[0][1]["rhs"].get("a", {}), at=stores[0][0]), pf(prog, "KeyPiece", "next"))
        ctx.check(ok, "delete-links", "inner-unlink",
                  "deleting a non-first record does not store the deleted record's successor into its predecessor", where=where(dele, inner_e))
        kws = [b for b, t in calls_to(prog, dele, target_fn=R.need("KEY_REWRITE")) if b in r_inner]
        ctx.check(bool(kws) and not dele.success_reach_return(inner_e, kws) and (not stores or all(dele.dominates(stores[0][0], b) for b in kws)),
                  "delete-links", "inner-unlink-written", "the relinked predecessor record is not written back", where=where(dele, inner_e))
        # unlink dominates the frees
        unl = [b for b, _ in hws] + kws
        for b, t in vf + kf:
            ctx.check(b not in r_head and b not in r_inner and all(any(dele.dominates(u, b) for u in grp) for grp in ([x for x, _ in hws], kws) if grp)
                      or False if False else _after_unlink(dele, b, [x for x, _ in hws], kws, ps[0]["block"]),
                      "delete-links", "unlink-before-free:%s" % t["callee"].rsplit("::", 1)[-1],
                      "a record is freed before it was unlinked from its chain", where=where(dele, b))

    # ---- (4) bucket index ---------------------------------------------------------------------
    for role, leaf in (("HEAD_READ", "BUCKET_LOAD"), ("HEAD_WRITE", "BUCKET_STORE")):
        fn = R.need(role)
        ctx.touch(fn)
        lf = calls_to(prog, fn, target_fn=R.need(leaf))
        idx_arg = 1 if leaf == "BUCKET_LOAD" else 2
        good = False
        if len(lf) == 1:
            os_ = origins(prog, fn, lf[0][1]["args"][idx_arg])
            good = bool(os_)
            for o in os_:
                if not (o.kind == "bin" and o.data["op"] == "Rem"):
                    good = False
                    break
                a = origins(prog, fn, o.data["a"], at=o.block)
                b_ = origins(prog, fn, o.data["b"], at=o.block)
                a_ok = bool(a) and all(x.kind == "call" and (x.data.get("callee") or "").endswith("HashValue::as_value")
                                       and all(y.kind == "param" and y.data == 2 for y in origins(prog, fn, x.data["args"][0], at=x.block)) for x in a)
                b_ok = bool(b_) and all(x.proj and x.proj[-1].endswith(fq(prog, "HTXCACHE.buckets_size")) for x in b_)
                good = good and a_ok and b_ok
        n_origin += 1
        ctx.check(good, "bucket-index", role, "%s does not address bucket (hash %% cached bucket count)" % role, where=where(fn))
        if leaf == "BUCKET_STORE" and len(lf) == 1:
            o = origins(prog, fn, lf[0][1]["args"][3], at=lf[0][0])
            ctx.check(bool(o) and all(x.kind == "param" and x.data == 3 for x in o), "bucket-index", "HEAD_WRITE:value", "the head writer does not store the offset it was given", where=where(fn))
            bs = origins(prog, fn, lf[0][1]["args"][1], at=lf[0][0])
            ctx.check(bool(bs) and all(x.proj and x.proj[-1].endswith(fq(prog, "HTXCACHE.buckets_size")) for x in bs), "bucket-index", "HEAD_WRITE:table-size",
                      "the head writer passes something other than the cached bucket count as table size", where=where(fn))
    # ---- (4b) every record field is accessed at its layout position (cursor typestate) ----------
    from . import cursor
    from .roles import M_KEY, M_VAL
    n_ops = cursor.check_cursor(ctx, prog, R, {M_KEY, M_VAL})
    ctx.floor("field-position", "record field accesses checked", n_ops, 30)
    # ---- (4b') a link reader returns the link it read: no other value (a constant "end of chain", a parameter) on any
    # success path - "this record looks released, stop here" makes live records unreachable
    for role, prim in (("NEXT_AT", "R_PIECE_OFFSET"), ("KEY_VALOFF", "R_PIECE_OFFSET")):
        f = R.get(role)
        if f is None:
            continue
        bad = _non_field_returns(prog, R, f, R.need(prim), 0)
        ctx.check(not bad, "field-position", role + ":returns-the-stored-field",
                  "%s can return something other than the field it read from the record (%s)" % (f.name, bad[:2]), where=where(f))
    # ---- (4c) payload integrity -----------------------------------------------------------------
    from . import payload
    payload.check_stored_length_reads(ctx, prog, R)
    payload.check_payload_sources(ctx, prog, R)
    # ---- (5) bitmap --------------------------------------------------------------------------
    c04bitmap.check_bitmap(ctx, prog, R)
    # ---- (6) phantom types -------------------------------------------------------------------
    kf_fn, vf_fn = R.need("KEY_FREE"), R.need("VAL_FREE")
    ctx.check(kf_fn.inputs[1] != vf_fn.inputs[1], "offset-types-distinct", "Key|Value", "key and value piece offsets are the same type")
    ctx.floor("origin-obligations", "origin obligations evaluated", n_origin, 11)
    ctx.sample({"put": put.id, "insert_arm_entry": put_none, "overwrite_arm_entry": put_some, "delete_found_entry": del_some})


def _non_field_returns(prog, R, f, prim, depth):
    """Origins of f's Ok payload that are not (transitively, through wrappers of the lib) results of the field primitive."""
    from .util import tracer
    bad = []
    tr = tracer(prog, f)
    os_ = []
    for o in tr.place({"l": 0, "p": []}):
        if o.kind == "call" and (o.data.get("callee") or "").endswith("FromResidual::from_residual"):
            continue        # an error exit of `?`
        if o.kind == "agg" and o.data.get("variant") == "Ok" and len(o.data.get("ops", [])) == 1 and not o.proj:
            os_ += tr.operand(o.data["ops"][0], at=o.block)
        else:
            os_.append(o)
    if not os_:
        return ["no origin"]
    for o in os_:
        if o.kind == "call":
            tg = prog.targets(o.data, f)[0]
            if any(x.id == prim.id for x in tg):
                continue
            if tg and all(x.crate == "abyssiniandb" and x.blocks for x in tg) and depth < 3 and all(x.id != f.id for x in tg) \
                    and not any((x.name == "new" and "semtype" in x.id) for x in tg):
                sub = [y for x in tg for y in _non_field_returns(prog, R, x, prim, depth + 1)]
                if not sub:
                    continue
                bad += sub
                continue
        bad.append(str(o))
    return bad


def _unlink_via_helper(prog, R, dele, lookup, r_del, from_found):
    """(block of the helper call, None | what is wrong) when delete's found arm calls exactly one function satisfying the
    re-link helper contract; None when there is no such call."""
    from .relinkh import relink_contract
    sites = []
    for b, t in dele.calls():
        if b not in r_del or dele.is_cleanup(b):
            continue
        for x in prog.targets(t, dele)[0]:
            c = relink_contract(prog, R, x) if x.impl_self_adt == INNER else None
            if c:
                sites.append((b, t, c))
    if len(sites) != 1:
        return None
    b, t, c = sites[0]
    lk = calls_to(prog, dele, target_fn=lookup)
    hk = {o.key() for o in origins(prog, dele, lk[0][1]["args"][1], at=lk[0][0])} if len(lk) == 1 else set()
    a_hash = origins(prog, dele, t["args"][c["hash"] - 1], at=b)
    a_prev = origins(prog, dele, t["args"][c["prev"] - 1], at=b)
    a_new = origins(prog, dele, t["args"][c["new"] - 1], at=b)
    if not (a_hash and hk and {o.key() for o in a_hash} == hk):
        return b, "the hash is not the one the record was looked up under"
    if not (a_prev and all(is_call_to(prog, dele, x, lookup) and x.proj[-1:] == (_LC(prog, R)[1],) for x in a_prev)):
        return b, "the predecessor is not the one the lookup reported (%s)" % a_prev
    if not from_found(a_new, pf(prog, "KeyPiece", "next")):
        return b, "the new link is not the found record's successor (%s)" % a_new
    return b, None


def _after_unlink(fn, b, head_sites, inner_sites, split_block):
    """b is after the head/inner split re-join and every path from the split to b passes an unlink site."""
    if not fn.dominates(split_block, b):
        return False
    avoid = set(head_sites) | set(inner_sites)
    return b not in fn.reachable_ok(fn.normal_succs(split_block), avoid)


def check(ctx):
    _check_own(ctx)
    from .engine import import_rules
    # a record that overruns its slot, a misplaced free-slot remainder or a lost re-link make the files undecodable too
    import_rules(ctx, "c06", {"free-slot-field-position", "no-lost-link-update", "large-pop-conservation", "writer-arms", "delete-pushes-slot", "class-slot", "large-threshold", "tables"})
    import_rules(ctx, "c09", {"sizer-covers-writer", "slot-honoured", "vu64-reader-consumes-encoded-length"})
    import_rules(ctx, "c08", {"relink"})
    import_rules(ctx, "c01", {"op-wiring"})
    import_rules(ctx, "c07", {"stored-count-wins"})
