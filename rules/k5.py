"""K5: source lists (nondeterminism, leaks, destructive file operations, uninitialised memory) and inventory helpers."""
import re

NONDET = [
    ("random-state", re.compile(r"^std::(collections::)?hash(::map)?::(RandomState|random::)|RandomState::new|std::hash::random|DefaultHasher::new")),
    ("time", re.compile(r"^std::time::|^core::time::.*now|SystemTime::now|Instant::now")),
    ("process-id", re.compile(r"^std::process::id|^std::os::unix::process::parent_id")),
    ("environment", re.compile(r"^std::env::")),
    ("thread-id", re.compile(r"^std::thread::(current|ThreadId)")),
    ("address", re.compile(r"addr$|expose_provenance|::as_ptr_range|ptr::.*::addr")),
    ("rand", re.compile(r"^rand::|getrandom")),
]
LEAK = re.compile(r"^core::mem::forget$|^core::mem::manually_drop::ManuallyDrop::<.*>::new$|^alloc::boxed::Box::<.*>::leak$|^alloc::rc::Rc::<.*>::into_raw$|"
                  r"^std::process::(exit|abort)$|^alloc::vec::Vec::<.*>::leak$")
DESTRUCTIVE = re.compile(r"^std::fs::File::create$|^std::fs::File::create_new$|^std::fs::remove_(file|dir|dir_all)$|^std::fs::write$|^std::fs::rename$|"
                         r"^std::fs::OpenOptions::create_new$|^std::fs::copy$|^std::fs::File::set_len$")
UNINIT = re.compile(r"MaybeUninit|Vec::<.*>::set_len$|^core::mem::(zeroed|uninitialized|transmute)$|assume_init|^alloc::alloc::|from_raw_parts")
HASH_ITER = re.compile(r"^std::collections::hash::(map::HashMap|set::HashSet)::<.*>::(iter|iter_mut|keys|values|values_mut|drain|into_iter|into_keys|into_values|retain)$")


def extern_calls(prog, crates=("abyssiniandb",), closure=None):
    """(fn, block, term) of calls that do not resolve to an analysed body."""
    for fn in (closure.values() if closure is not None else prog.fns.values()):
        if fn.crate not in crates:
            continue
        for b, t in fn.calls():
            yield fn, b, t


def matches(prog, rx, crates=("abyssiniandb",), closure=None):
    out = []
    for fn, b, t in extern_calls(prog, crates, closure):
        c = t.get("callee") or ""
        if rx.search(c):
            out.append((fn, b, t))
    return out


def ptr_casts(prog, crates=("abyssiniandb",)):
    out = []
    for fn in prog.fns.values():
        if fn.crate not in crates or fn.from_expansion:
            continue
        for b, blk in enumerate(fn.blocks):
            if blk["cleanup"]:
                continue
            for s in blk["stmts"]:
                if s["s"] == "assign" and s["rhs"]["rv"] == "cast" and "Expose" in s["rhs"]["kind"] and not s.get("macros"):
                    out.append((fn, b, s))
    return out
