"""Debug helper: pretty-print a function's extracted MIR.  python3 -m rules.dump <substring> [config]"""
import sys
from . import extract
from .model import Program, short, const_val


def pl(p):
    s = "_%d" % p["l"]
    for e in p["p"]:
        if e == "*":
            s = "(*%s)" % s
        elif e.startswith("f:"):
            s += "." + e[2:].rsplit("::", 1)[-1]
        else:
            s += "<%s>" % e
    return s


def op(o):
    if o.get("k") == "c":
        v = const_val(o)
        if v is None:
            return "const(%s)" % short(o.get("cdef") or o.get("ty") or "?")
        return "const %r%s" % (v, (" /*%s*/" % short(o["cdef"])) if o.get("cdef") else "")
    if o.get("k") in ("cp", "mv"):
        return ("move " if o["k"] == "mv" else "") + pl(o["pl"])
    return "?"


def rv(r):
    k = r["rv"]
    if k == "use":
        return op(r["a"])
    if k == "ref":
        return ("&mut " if r["mut"] else "&") + pl(r["pl"])
    if k == "bin":
        return "%s(%s, %s)" % (r["op"], op(r["a"]), op(r["b"]))
    if k == "un":
        return "%s(%s)" % (r["op"], op(r["a"]))
    if k == "cast":
        return "%s as %s [%s]" % (op(r["a"]), short(r["ty"]), r["kind"])
    if k == "agg":
        nm = r.get("agg")
        if nm == "adt":
            nm = short(r["adt"]) + "::" + r["variant"]
        if nm == "closure":
            nm = "closure " + short(r["closure"])
        return "%s{%s}" % (nm, ", ".join(op(x) for x in r["ops"]))
    if k == "discr":
        return "discriminant(%s)" % pl(r["pl"])
    if k == "repeat":
        return "[%s; %s]" % (op(r["a"]), r["n"])
    return k + ":" + str(r.get("dbg", ""))[:80]


def dump(fn, out=sys.stdout):
    w = out.write
    w("fn %s  [%s]\n" % (fn.id, fn.span))
    for i, l in enumerate(fn.locals):
        if l.get("name") or i <= fn.arg_count:
            w("  let _%d: %s  // %s\n" % (i, short(l["ty"])[:100], l.get("name", "")))
    for b, blk in enumerate(fn.blocks):
        w("bb%d%s:\n" % (b, " (cleanup)" if blk["cleanup"] else ""))
        if blk["cleanup"]:
            continue
        for s in blk["stmts"]:
            if s["s"] == "assign":
                w("    %s = %s\n" % (pl(s["lhs"]), rv(s["rhs"])))
            else:
                w("    %s\n" % s["s"])
        t = blk["term"]
        if not t:
            continue
        k = t["t"]
        if k == "call":
            w("    %s = %s(%s) -> %s   %s%s\n" % (pl(t["dest"]), short(t.get("callee_full") or t.get("callee") or "indirect")[:110],
                                              ", ".join(op(a) for a in t["args"]), t["target"],
                                              "[res: %s] " % short(t["resolved"])[:80] if t.get("resolved") and t.get("resolved") != t.get("callee") else "",
                                              "{%s}" % ",".join(m.split(":")[-1] for m in t["macros"]) if t["macros"] else ""))
        elif k == "switch":
            w("    switch %s [%s] -> %s else %s\n" % (op(t["discr"]), short(t["dty"]), t["targets"], t["otherwise"]))
        elif k == "assert":
            w("    assert(%s == %s) %s -> %s\n" % (op(t["cond"]), t["expected"], t["kind"], t["target"]))
        elif k == "drop":
            w("    drop(%s) -> %s\n" % (pl(t["pl"]), t["target"]))
        elif k == "goto":
            w("    goto %s\n" % t["target"])
        else:
            w("    %s\n" % k)


if __name__ == "__main__":
    pat = sys.argv[1]
    cfg = sys.argv[2] if len(sys.argv) > 2 else "default"
    facts, _ = extract.extract(cfg)
    prog = Program(facts)
    for fn in prog.fns.values():
        if pat in fn.id:
            dump(fn)
            print()
