"""C07 - tuning parameters never change observable behaviour."""
from .model import short, const_val
from .roles import Roles, M_HTX, PIECEMGR, VARFILE
from .util import (calls_to, origins, where, is_call_to, region_dominated, find_bool_split, reachable_fns, leaf_origins,
                   field_reads, field_stores, enum_switches)
from .fields import fname, fq
from . import k7
from .c13 import zero_split

EXPLANATION = (
    "(1) The stored bucket count is authoritative: the caller's buckets_size parameter is read only on the creation arm "
    "(file length zero) of the hash-table open; the cached count has exactly two stores, creation arm <- value derived "
    "from the parameter (and the same value goes into the header), reopen arm <- the header field. (2) Buffer-size "
    "parameters are read only by the three file opens and only select/feed one of the three buffered-file constructors. "
    "(3) Guard dominance for unsigned subtraction (K7a): each of the lib's checked unsigned `-` sites has a constant-safe "
    "lower bound, a dominating comparison on the same operands that establishes lhs >= rhs with no intervening "
    "redefinition, guarded call sites (for the Offset - Offset operator), or is on the triaged table whose stated "
    "preconditions are themselves checked; anything else is reported (configuration-derived values such as the bucket "
    "count reach such sites).")
NOT_DECIDED = ("equality of results across configurations; buffer eviction behaviour (rabuf's run-time chunk accounting, "
               "including the fixed-size-below-two-chunks interaction the property text mentions).")
ASSUMPTIONS = ["overflow-checked unsigned Add/Mul cannot wrap below their operands (debug profile facts)",
               "a guard is accepted only if none of the compared variables is redefined between the guard edge and the use"]

PARAMS = "abyssiniandb::filedb::FileDbParams"
# (function name, expression) -> (reason, precondition id)
TRIAGED_SUB = {
    ("SCAN", "idx - 8"): ("the byte-wise bitmap loop before it executes at least once (idx < buckets_size on entry and after the wide loop's compensation), adding 8", "scan-callers-guarded"),
    ("FREE_HEAD_OFFSET", "len(self.size_ary) - 2"): ("size-class table of a record file has 16 entries", "tables-nonempty"),
    ("FREE_HEAD_OFFSET", "len(self.free_list_offset) - 1"): ("free-list head table of a record file has 16 entries", "tables-nonempty"),
    ("IS_LARGE", "len(self.size_ary) - 1"): ("size-class table of a record file has 16 entries", "tables-nonempty"),
    ("ROUNDUP", "len(self.size_ary) - 1"): ("size-class table of a record file has 16 entries", "tables-nonempty"),
    ("CAN_DOWN", "len(self.size_ary) - 1"): ("size-class table of a record file has 16 entries", "tables-nonempty"),
}


def _check_own(ctx):
    prog = ctx.prog
    R = Roles(prog)
    check_bucket_count(ctx, prog, R)
    check_buf_params(ctx, prog, R)
    check_buf_amount(ctx, prog, R)
    check_unsigned_sub(ctx, prog, R)


def check(ctx):
    _check_own(ctx)
    from .engine import import_rules
    # the bucket count is a tuning parameter: the bucket / bitmap scan must be right for every table size, not only for
    # the sizes whose bitmap is a whole number of 64-bucket words
    import_rules(ctx, "c04", {"scan-compensation", "layout-agreement"})
    # the buffer sizes are tuning parameters: a transfer that may stop at a buffer-chunk boundary makes results depend on them
    import_rules(ctx, "c05", {"stored-length-read"})


def _user_fns_only(hits):
    return [(fn, b, pl) for fn, b, pl in hits if not fn.from_expansion]


def check_bucket_count(ctx, prog, R):
    hopen = ctx.anchor("HTX_OPEN", lambda p: R.need("HTX_OPEN"))
    if not hopen:
        return
    ctx.touch(hopen, len(hopen.blocks))
    sp = zero_split(prog, R, hopen)
    if not ctx.check(len(sp) == 1, "stored-count-wins", "split", "cannot find the file-length split in the hash-table open", where=where(hopen)):
        return
    zero, nonzero = sp[0]["true"], sp[0]["false"]
    rz, rn = region_dominated(hopen, zero), region_dominated(hopen, nonzero)
    reads = _user_fns_only(field_reads(prog, PARAMS + "." + fname(prog, "PARAMS.buckets_size")))
    ctx.floor("stored-count-wins", "reads of params.buckets_size", len(reads), 1)
    for fn, b, pl in reads:
        ctx.check(fn.id == hopen.id and b in rz, "stored-count-wins", "param-read-only-on-creation",
                  "the caller's buckets_size parameter is read outside the creation arm of the hash-table open: an existing "
                  "map opened with other parameters would not use its stored table size", where=where(fn, b))
    stores = field_stores(prog, fq(prog, "HTXCACHE.buckets_size"))
    zs = [(fn, b, s) for fn, b, s in stores if fn.id == hopen.id and b in rz]
    ns = [(fn, b, s) for fn, b, s in stores if fn.id == hopen.id and b in rn]
    others = [(fn, b, s) for fn, b, s in stores if not (fn.id == hopen.id and (b in rz or b in rn))]
    ctx.check(len(zs) == 1 and len(ns) == 1 and not others, "stored-count-wins", "two-stores",
              "the cached bucket count must be stored exactly once per arm of the open and nowhere else (creation %d, reopen %d, elsewhere %s)"
              % (len(zs), len(ns), [where(f, b) for f, b, _ in others]), where=where(hopen))
    if ns:
        fn, b, s = ns[0]
        o = origins(prog, hopen, s["rhs"].get("a", {}), at=b)
        ctx.check(bool(o) and all(is_call_to(prog, hopen, x, R.need("HT_SIZE_READ")) and x.proj == ("?ok",) for x in o), "stored-count-wins", "reopen-from-header",
                  "on reopen the cached bucket count does not come from the header field (%s)" % o, where=where(hopen, b))
        # header check precedes
    if zs:
        fn, b, s = zs[0]
        leaves = leaf_origins(prog, hopen, s["rhs"].get("a", {}), at=b)
        from_param = any(x.kind == "param" and x.data == 4 and any(p.endswith(fq(prog, "PARAMS.buckets_size")) for p in x.proj) for x in leaves)
        ctx.check(from_param, "stored-count-wins", "creation-from-param", "on creation the cached bucket count is not derived from the parameter", where=where(hopen, b))
        init = calls_to(prog, hopen, target_fn=R.need("HDR_INIT_HTX"))
        if ctx.check(len(init) == 1 and init[0][0] in rz, "stored-count-wins", "init-on-creation", "header initialiser not called exactly once on the creation arm", where=where(hopen)):
            a = origins(prog, hopen, init[0][1]["args"][2], at=init[0][0])
            c = origins(prog, hopen, s["rhs"].get("a", {}), at=b)
            ctx.check({x.key() for x in a} == {x.key() for x in c}, "stored-count-wins", "header-equals-cache",
                      "the bucket count written to the header differs from the cached one", where=where(hopen, init[0][0]))
    # the constructor starts from a neutral value
    ctx.sample({"rule": "stored-count-wins", "creation_arm": zero, "reopen_arm": nonzero, "param_reads": [where(f, b) for f, b, _ in reads]})


def check_buf_params(ctx, prog, R):
    opens = {"key_buf_size": R.need("KEY_OPEN"), "val_buf_size": R.need("VAL_OPEN"), "htx_buf_size": R.need("HTX_OPEN")}
    ctor_names = {"new", "with_capacity", "with_per_mille"}
    for field in ("key_buf_size", "val_buf_size", "htx_buf_size", "idx_buf_size"):
        reads = _user_fns_only(field_reads(prog, PARAMS + "." + field))
        want = opens.get(field)
        if want is None:
            ctx.check(not reads, "buf-param-scope", field, "unused parameter %s is now read in %s" % (field, [where(f, b) for f, b, _ in reads]))
            continue
        ctx.check(bool(reads) and all(fn.id == want.id for fn, b, pl in reads), "buf-param-scope", field,
                  "%s is read outside its file's open routine: %s" % (field, sorted({fn.id for fn, b, pl in reads if fn.id != want.id})), where=where(want))
        ctx.touch(want)
        # all three constructors are selected by the match on the parameter
        ctors = {}
        for b, t in want.calls():
            tg, _ = prog.targets(t, want)
            for x in tg:
                if x.impl_self_adt == VARFILE and x.name in ctor_names and x.impl_trait is None:
                    ctors.setdefault(x.name, []).append(b)
        ctx.check(set(ctors) == ctor_names, "buf-param-selects-ctor", field, "the open does not offer all three buffered-file constructors (%s)" % sorted(ctors), where=where(want))
        # data flow: the parameter payload only feeds constructor arguments
        sinks = set()
        for b, t in want.calls():
            for a in t["args"]:
                for o in leaf_origins(prog, want, a, at=b):
                    if o.kind == "param" and any(p.endswith("FileDbParams." + field) for p in o.proj):
                        sinks.add((t.get("callee") or "?"))
        allowed = lambda c: c.endswith(("VarFile::with_capacity", "VarFile::with_per_mille")) or c in ("core::convert::TryInto::try_into",) \
            or c.startswith("core::result::Result") or c.rsplit("::", 1)[-1] in GROW_OK_CALLS
        bad = sorted(c for c in sinks if not allowed(c))
        ctx.check(not bad, "buf-param-selects-ctor", field + ":sinks", "%s also flows into %s" % (field, bad), where=where(want))


SHRINK_CALLS = ("saturating_sub", "checked_sub", "wrapping_sub", "overflowing_sub", "min", "clamp", "checked_div", "wrapping_div", "isqrt", "ilog2")
GROW_OK_CALLS = ("max", "into", "from", "try_into", "try_from", "unwrap_or_default", "unwrap", "expect", "unwrap_or", "next_power_of_two", "saturating_add", "clone")


def _shrinks(c):
    """first sub-expression of a canonical expression that can make the value smaller than its parameter, else None"""
    if c[0] == "bin":
        if c[1] in ("Sub", "Div", "Rem", "Shr", "BitAnd"):
            return c
        return _shrinks(c[2]) or _shrinks(c[3])
    if c[0] == "call":
        nm = c[1].rsplit("::", 1)[-1]
        if nm in SHRINK_CALLS or nm not in GROW_OK_CALLS:
            return c
        for a in c[2]:
            r = _shrinks(a)
            if r:
                return r
    if c[0] in ("un", "len"):
        return c
    if c[0] in ("?", "c?", "call?", "var"):
        return c
    return None


def _strip_grow(c):
    while c[0] == "call" and c[1].rsplit("::", 1)[-1] in GROW_OK_CALLS and c[2]:
        c = c[2][0]
    return c


def check_buf_amount(ctx, prog, R):
    """The amount of buffering requested reaches rabuf unreduced: the buffered-file constructors hand their chunk-size /
    chunk-count / per-mille parameters on without any operation that can lower them, and the opens compute the chunk
    count of a `Size` setting as <size> / <the chunk size they pass> (optionally raised by `max`)."""
    rule = "buf-amount-not-reduced"
    n = 0
    for fn in sorted(prog.fns.values(), key=lambda f: f.id):
        if fn.crate != "abyssiniandb" or fn.impl_self_adt != VARFILE or fn.impl_trait is not None or fn.name not in ("with_capacity", "with_per_mille"):
            continue
        ctx.touch(fn)
        cn = k7.Canon(prog, fn)
        sites = [(b, t) for b, t in fn.calls() if (t.get("callee") or "").startswith("rabuf::RaBuf") and (t.get("callee") or "").rsplit("::", 1)[-1] == fn.name]
        if not ctx.check(len(sites) == 1, rule, "VarFile::%s:anchor" % fn.name, "VarFile::%s does not call rabuf's %s exactly once" % (fn.name, fn.name), where=where(fn)):
            continue
        b, t = sites[0]
        for i, a in enumerate(t["args"][2:], start=2):
            c = cn.op(a, b)
            bad = _shrinks(c)
            n += 1
            ctx.check(bad is None and any(v for v in k7.vars_of(c)), rule, "VarFile::%s:arg%d" % (fn.name, i),
                      "VarFile::%s hands `%s` to rabuf instead of its (possibly raised) parameter: a requested buffer can end up with fewer chunks than asked for (one chunk makes rabuf recurse without end)"
                      % (fn.name, k7.expr_str(c)), where=where(fn, b))
    for field, role in (("key_buf_size", "KEY_OPEN"), ("val_buf_size", "VAL_OPEN"), ("htx_buf_size", "HTX_OPEN")):
        fn = R.need(role)
        cn = k7.Canon(prog, fn)
        for b, t in fn.calls():
            cal = t.get("callee") or ""
            if not cal.endswith(("VarFile::with_capacity", "VarFile::with_per_mille")) or len(t["args"]) < 5:
                continue
            cs, amt = cn.op(t["args"][3], b), _strip_grow(cn.op(t["args"][4], b))
            n += 1
            is_param = lambda x, variant: x[0] == "p" and any(p.endswith("FileDbParams." + field) for p in x[2]) and any(p == "dc:" + variant for p in x[2])
            if cal.endswith("with_capacity"):
                ok = amt[0] == "bin" and amt[1] == "Div" and is_param(amt[2], "Size") and cs[0] == "c" and amt[3] == cs
                ctx.check(ok, rule, field + ":Size", "the chunk count of a fixed-size %s setting is `%s`, not <size> / <chunk size passed (%s)>" % (field, k7.expr_str(amt), k7.expr_str(cs)), where=where(fn, b))
            else:
                ctx.check(is_param(amt, "PerMille"), rule, field + ":PerMille", "the per-mille %s setting reaches the constructor as `%s`" % (field, k7.expr_str(amt)), where=where(fn, b))
    ctx.floor(rule, "constructor arguments checked", n, 8)


def _canon_fields(prog, expr):
    """triage entries are written with the field names of the pinned tree: map renamed fields back"""
    import re
    for role, canon in (("MGR.sizes", "size_ary"), ("MGR.heads", "free_list_offset")):
        expr = re.sub(r"\b%s\b" % re.escape(fname(prog, role)), canon, expr)
    return expr


def check_unsigned_sub(ctx, prog, R):
    LB = k7.LowerBound(prog)
    n = 0
    cond_cache = {}
    pre_needed = set()
    classes = {}
    role_of = {}
    for r in ("SCAN", "FREE_HEAD_OFFSET", "IS_LARGE", "ROUNDUP", "CAN_DOWN"):
        f = R.get(r)
        if f is not None:
            role_of[f.id] = r
    for fn, b, s, A, B in k7.sub_sites(prog):
        n += 1
        ctx.touch(fn)
        expr = "%s - %s" % (k7.expr_str(A), k7.expr_str(B))
        inst = "%s:%s" % (fn.name, expr.replace(" ", ""))
        if role_of.get(fn.id) == "SCAN" and A[0] == "var" and not A[2] and B == ("c", 8):
            expr = "idx - 8"        # the triage entry (and its checked preconditions) is about the shape `<index variable> - 8`, whatever the variable is called
        if A[0] == "c" and B[0] == "c" and A[1] >= B[1]:
            cls = "constant-safe"
        elif B[0] == "c" and LB.lb(A) >= B[1]:
            cls = "lower-bound(%d)" % LB.lb(A)
        else:
            if fn.id not in cond_cache:
                cond_cache[fn.id] = k7.conditions(prog, fn)
            g = k7.guard_for(prog, fn, b, A, B, cond_cache[fn.id])
            if g:
                cls = "guarded@bb%d" % g[0]
            elif _is_param_sub(fn, A, B):
                cls = _callers_guarded(ctx, prog, fn, inst)
            elif (role_of.get(fn.id), _canon_fields(prog, expr)) in TRIAGED_SUB:
                cls = "triaged"
                pre_needed.add(TRIAGED_SUB[(role_of.get(fn.id), _canon_fields(prog, expr))][1])
            else:
                cls = None
        classes[inst] = cls
        if cls:
            ctx.ok("unsigned-sub", inst, cls)
        else:
            ctx.fail("unsigned-sub", inst,
                     "unsigned subtraction `%s` in %s has no dominating guard, constant lower bound or triage entry: it underflows "
                     "(debug: panic, release: wrap) when the left side is smaller" % (expr, fn.id), where=where(fn, b),
                     expected="a dominating comparison establishing lhs >= rhs on the same operands")
    feats = prog.features.get("abyssiniandb", [])
    # counted per configuration on the repaired tree: vu64+bitmap 28, vu64 without bitmap 26, fixed-width fields + bitmap 25.
    # The floor only guards against a vacuous pass (sites no longer recognised): it leaves room for refactors that
    # legitimately remove a few subtractions.
    # (about half of the counted sites: two refactorings of the benign corpus remove eight of them in the fixed-width configuration)
    floor = 14 if ("vf_vu64" in feats and "htx_bitmap" in feats) else (13 if "vf_vu64" in feats else 12)
    ctx.floor("unsigned-sub", "unsigned subtraction sites in the lib", n, floor)
    ctx.sample({"rule": "unsigned-sub", "classification": classes})
    from . import poscontrol
    poscontrol.sub_control(ctx)
    # preconditions of triage entries
    if "tables-nonempty" in pre_needed:
        _pre_tables(ctx, prog, R)
    if "scan-callers-guarded" in pre_needed:
        _pre_scan(ctx, prog, R)


def _is_param_sub(fn, A, B):
    return A[0] == "p" and B[0] == "p" and A[1] != B[1]


def _callers_guarded(ctx, prog, fn, inst):
    """The operator fn subtracts two of its parameters: every call site must be guarded."""
    sites = prog.callers().get(fn.id, [])
    if not sites:
        return "callers-guarded(0 callers)"
    ok = True
    for caller, b in sites:
        t = caller.term(b)
        cn = k7.Canon(prog, caller)
        A, B = cn.op(t["args"][0], b), cn.op(t["args"][1], b)
        g = k7.guard_for(prog, caller, b, A, B)
        if not ctx.check(g is not None, "unsigned-sub", inst + "@" + caller.name,
                         "call of the Offset - Offset operator in %s is not dominated by a comparison establishing lhs >= rhs" % caller.id, where=where(caller, b)):
            ok = False
    return "callers-guarded(%d)" % len(sites) if ok else None


def _pre_tables(ctx, prog, R):
    """PieceMgr tables: every constructor call passes constant tables; those of the record files have >= 2 entries;
    the (empty) tables of the hash-table file are never consulted because no function of the htx module reaches a
    PieceMgr method."""
    news = prog.find(name="new", self_adt=PIECEMGR)
    if not ctx.check(len(news) == 1, "triage-precondition", "tables-nonempty:anchor", "PieceMgr::new not found"):
        return
    lens = {}
    for caller, b in prog.callers().get(news[0].id, []):
        t = caller.term(b)
        ls = []
        for a in t["args"]:
            for o in leaf_origins(prog, caller, a, at=b):
                if o.kind == "const" and isinstance(o.data, (tuple, bytes)):
                    ls.append(len(o.data))
                elif o.kind == "const":
                    ls.append(0 if "; 0]" in str(o.data) else None)
        lens[caller] = ls
    mgr_methods = {f.id for f in prog.fns.values() if f.impl_self_adt == PIECEMGR and f.name != "new"}
    for caller, ls in lens.items():
        small = [x for x in ls if x is None or x < 2]
        if not small:
            ctx.ok("triage-precondition", "tables-nonempty:" + caller.name + "@" + short(caller.impl_self_adt or "?"), "tables of %s entries" % ls)
        else:
            owner_mod = caller.module
            reach = reachable_fns(prog, [f for f in prog.fns.values() if f.module == owner_mod and f.crate == "abyssiniandb"])
            hit = sorted(mgr_methods & set(reach))
            ctx.check(not hit, "triage-precondition", "tables-nonempty:" + caller.name + "@" + short(caller.impl_self_adt or "?"),
                      "%s builds a PieceMgr with empty tables and its module can reach %s (len()-k would underflow)" % (caller.id, hit), where=where(caller))
    ctx.floor("triage-precondition", "PieceMgr::new call sites", len(lens), 3)


def _stored_back(fn, st):
    """`v = v + C` (possibly through the overflow-checked pair temp): the sum is assigned to the variable it was computed from"""
    v = st["rhs"]["a"]["pl"]["l"]
    t = st["lhs"]["l"]
    if t == v and not st["lhs"]["p"]:
        return True
    for blk in fn.blocks:
        for s2 in blk["stmts"]:
            if s2["s"] == "assign" and s2["lhs"]["l"] == v and not s2["lhs"]["p"] and s2["rhs"]["rv"] == "use" \
                    and s2["rhs"]["a"].get("k") in ("cp", "mv") and s2["rhs"]["a"]["pl"]["l"] == t:
                return True
    return False


def in_cycle_blocks(fn, b):
    return b in fn.reachable_ok(fn.normal_succs(b))


def _pre_scan(ctx, prog, R):
    scan = R.need("SCAN")
    # (a) inside the scanner: the loop that advances the index by 8 per bitmap byte runs under `idx < buckets_size` -
    # together with (b) this makes it execute at least once, so that the `idx - 8` behind it cannot underflow
    from .model import const_val
    cn_s = k7.Canon(prog, scan)
    incs = []
    for b, blk in enumerate(scan.blocks):
        if blk["cleanup"] or not in_cycle_blocks(scan, b):
            continue
        for st in blk["stmts"]:
            if st["s"] == "assign" and st["rhs"]["rv"] == "bin" and st["rhs"]["op"] in ("Add", "AddWithOverflow") and const_val(st["rhs"]["b"]) == 8 \
                    and st["rhs"]["a"].get("k") in ("cp", "mv") and not st["rhs"]["a"]["pl"]["p"] and _stored_back(scan, st):
                incs.append((b, st))
    ok_loop = bool(incs)
    facts = k7.lt_facts(prog, scan)
    for ib, st in incs:
        v = cn_s.op(st["rhs"]["a"], ib)
        good = False
        for (sb, tgt, X, Y) in facts:
            if Y[0] == "p" and Y[1] == 2 and not Y[2] and k7.same(X, v) and scan.dominates(tgt, ib) and sb in scan.reachable_ok(scan.normal_succs(ib)):
                good = True
        ok_loop = ok_loop and good
    ctx.check(ok_loop, "triage-precondition", "scan-byte-loop-guard",
              "the bitmap byte loop of the bucket scanner (index += 8 per byte) is not guarded by `idx < buckets_size`: for small tables it may not run at all "
              "and the `idx - 8` behind it underflows", where=where(scan, incs[0][0]) if incs else where(scan))
    sites = prog.callers().get(scan.id, [])
    ctx.floor("triage-precondition", "call sites of the bucket scanner", len(sites), 2)
    for caller, b in sites:
        t = caller.term(b)
        cn = k7.Canon(prog, caller)
        size, idx = cn.op(t["args"][1], b), cn.op(t["args"][2], b)
        ok = False
        for (sb, tgt, X, Y) in k7.lt_facts(prog, caller):
            if k7.same(X, idx) and k7.same(Y, size) and caller.dominates(tgt, b) and all(p_ == sb for p_ in caller.preds()[tgt]):
                ok = True
        ctx.check(ok, "triage-precondition", "scan-callers-guarded:" + short(caller.id),
                  "the bucket scanner is called without a dominating `idx < buckets_size` test", where=where(caller, b))
