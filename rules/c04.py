"""C04 - iteration yields each live entry exactly once, with exact size hints (thin by nature)."""
from .model import short, const_val, Tracer
from .roles import Roles, INNER, ITERMUT
from .util import (calls_to, origins, where, is_call_to, region_dominated, bool_switches, ret_agg_blocks, in_cycle,
                   leaf_origins, field_stores, tracer)
from . import k7, c04bitmap
from . import flushpath as fp

EXPLANATION = (
    "(1) All iterator flavours are one iterator: the four wrapper types' next/size_hint/new delegate to the core "
    "iterator (keys/values only project the pair), and the seven DbMap / IntoIterator constructors build them from the "
    "map's shared state. (2) size_hint is the remaining counter: initialised from the stored item count, decremented "
    "exactly once on every path that returns Some and never on a path that returns None, Some is only returned under "
    "counter != 0, and size_hint returns (n, Some(n)) of that field; the item returned is (key, value) loaded at the "
    "offset the scan produced. (3) The occupancy bitmap the scan trusts is maintained by every bucket-head write, and "
    "the bitmap base / bucket slot address expressions agree between the writer, the scanner and the file-length "
    "formula of the open. (4) Scan compensation: a conditional `idx -= stride` that undoes a strided loop's overshoot "
    "must be guarded by evidence that the loop body executed (comparison with a pre-loop snapshot of the index, or a "
    "flag set in the loop), not by a range test of the index against a constant. (5) The .htx cursor is shared by every "
    "call on the map: each raw read / write / relative seek of an htx-layer function is dominated by an absolute seek "
    "in the same function (io-positioned).")
NOT_DECIDED = ("exactly-once / nothing-else as a fact about all table states (the scan's index arithmetic over run-time "
               "bitmap contents), behaviour after deletions, termination; the unconditional `idx - 8` after the byte-wise "
               "loop relies on a value precondition (triaged under C07).")
ASSUMPTIONS = ["the map is not modified during the traversal (the property's own premise)"]

DBMAP = "abyssiniandb::DbMap"
WRAPPERS = ["DbXxxIter", "DbXxxIntoIter", "DbXxxKeys", "DbXxxValues"]
DBX = "abyssiniandb::filedb::inner::dbxxx::"
from .fields import fname, fq


def _check_own(ctx):
    prog = ctx.prog
    R = Roles(prog)
    check_one_iterator(ctx, prog, R)
    check_counter(ctx, prog, R)
    c04bitmap.check_bitmap(ctx, prog, R)
    check_layout_agreement(ctx, prog, R)
    check_io_positioned(ctx, prog, R)
    check_scan_compensation(ctx, prog, R)
    check_scan_state(ctx, prog, R)


def check_one_iterator(ctx, prog, R):
    core_next = prog.find(name="next", self_adt=ITERMUT, trait="core::iter::traits::iterator::Iterator")
    core_hint = prog.find(name="size_hint", self_adt=ITERMUT, trait="core::iter::traits::iterator::Iterator")
    core_new = R.need("ITER_NEW")
    if not ctx.check(len(core_next) == 1 and len(core_hint) == 1, "one-iterator", "core", "core iterator next/size_hint not found"):
        return
    core_next, core_hint = core_next[0], core_hint[0]
    n = 0
    for w in WRAPPERS:
        adt = DBX + w
        for m, tgt in (("next", core_next), ("size_hint", core_hint), ("new", core_new)):
            fs = [f for f in prog.fns.values() if f.impl_self_adt == adt and f.name == m]
            if not ctx.check(len(fs) == 1, "one-iterator", "%s::%s:anchor" % (w, m), "%s::%s not found" % (w, m)):
                continue
            f = fs[0]
            ctx.touch(f)
            sites = calls_to(prog, f, target_fn=tgt)
            must = len(sites) == 1 and not f.success_reach_return(0, [sites[0][0]])
            others = [t.get("callee") for b, t in f.calls() if (t.get("callee") or "").startswith("abyssiniandb::") and b not in [s[0] for s in sites]]
            n += 1
            ctx.check(must and not others, "one-iterator", "%s::%s" % (w, m),
                      "%s::%s does not simply delegate to the core iterator's %s (other crate calls: %s)" % (w, m, m, others), where=where(f))
            if m == "size_hint" and sites:
                o = tracer(prog, f).place({"l": 0, "p": []})
                ctx.check(bool(o) and all(is_call_to(prog, f, x, tgt) and not x.proj for x in o), "one-iterator", "%s::size_hint:returns-core" % w,
                          "%s::size_hint does not return the core iterator's hint unchanged" % w, where=where(f))
            if m == "next" and w in ("DbXxxKeys", "DbXxxValues"):
                cl = prog.closures_of(f)
                want = "f:0" if w == "DbXxxKeys" else "f:1"
                if cl:
                    good = len(cl) == 1
                    if good:
                        o = tracer(prog, cl[0]).place({"l": 0, "p": []})
                        good = bool(o) and all(x.kind == "param" and x.data == 2 and x.proj == (want,) for x in o)
                else:
                    # the projecting closure has been desugared into the body: the Some payload returned is that
                    # component of the core iterator's item
                    o = tracer(prog, f).place({"l": 0, "p": ["dc:Some", "f:core::option::Option::Some.0"]})
                    good = bool(o) and all(is_call_to(prog, f, x, tgt) and x.proj and x.proj[-1] == want for x in o)
                ctx.check(good, "one-iterator", "%s::next:projection" % w, "%s does not project component %s of the core iterator's item" % (w, want[-1]), where=where(f))
            if m == "next" and w in ("DbXxxIter", "DbXxxIntoIter"):
                o = tracer(prog, f).place({"l": 0, "p": []})
                ctx.check(bool(o) and all(is_call_to(prog, f, x, tgt) and not x.proj for x in o), "one-iterator", "%s::next:returns-core" % w,
                          "%s::next does not return the core iterator's item unchanged" % w, where=where(f))
    ctx.floor("one-iterator", "wrapper methods delegating", n, 12)
    # constructors on the map handle
    ctors = [f for f in prog.fns.values() if f.impl_self_adt == fp.FILEDBMAP and f.impl_trait == DBMAP]
    ctors += [f for f in prog.fns.values() if f.name == "into_iter" and "FileDbMap<" in (f.impl_self or "")]
    ctx.floor("one-iterator", "iterator constructors on the map handle", len(ctors), 7)
    for f in ctors:
        ctx.touch(f)
        news = [(b, t) for b, t in f.calls() if (t.get("callee") or "").startswith(DBX + "DbXxx") and (t.get("callee") or "").endswith("::new")]
        ok = len(news) == 1
        if ok:
            o = leaf_origins(prog, f, news[0][1]["args"][0], at=news[0][0])
            ok = bool(o) and all(x.kind == "param" and x.data == 1 and x.proj and x.proj[-1].endswith("FileDbMap.0") for x in o)
        if not news:
            # ... or hands the same map to a sibling constructor and returns what it built (`fn into_iter(self) { self.iter() }`)
            sib = [(b, t) for b, t in f.calls() if not f.is_cleanup(b) and any(x.id in {g.id for g in ctors if g is not f} for x in prog.targets(t, f)[0])]
            crate = [(b, t) for b, t in f.calls() if not f.is_cleanup(b) and (t.get("callee") or "").startswith("abyssiniandb::")]
            ok = len(sib) == 1 and len(crate) == 1
            if ok:
                o = leaf_origins(prog, f, sib[0][1]["args"][0], at=sib[0][0])
                ret = leaf_origins(prog, f, {"k": "cp", "pl": {"l": 0, "p": []}}, terminal_only=True)
                ok = bool(o) and all(x.kind == "param" and x.data == 1 and not [p_ for p_ in x.proj if p_ != "deref"] for x in o) \
                    and bool(ret) and all(x.kind == "call" and x.block == sib[0][0] and not x.proj for x in ret)
        ctx.check(ok, "one-iterator", "ctor:%s" % short(f.id), "%s does not build its iterator from the map's shared state" % f.id, where=where(f))


def check_counter(ctx, prog, R):
    COUNTER = fq(prog, "ITER.counter")
    new, nxt = R.need("ITER_NEW"), R.need("ITER_NEXT")
    ctx.touch(new)
    ctx.touch(nxt, len(nxt.blocks))
    # initialised from the stored count
    init_ok = False
    for b, blk in enumerate(new.blocks):
        for s in blk["stmts"]:
            if s["s"] == "assign" and s["rhs"]["rv"] == "agg" and s["rhs"].get("adt") == ITERMUT:
                flds = s["rhs"]["fields"]
                o = origins(prog, new, s["rhs"]["ops"][flds.index(fname(prog, "ITER.counter"))], at=b)
                init_ok = bool(o) and all(is_call_to(prog, new, x, R.need("CNT_READ")) and x.proj[:1] == ("?ok",) for x in o)
                bs = origins(prog, new, s["rhs"]["ops"][flds.index(fname(prog, "ITER.table_size"))], at=b)
                ctx.check(bool(bs) and all(is_call_to(prog, new, x, R.need("HT_SIZE_READ_W")) for x in bs), "size-hint-exact", "table-size-from-header",
                          "the iterator's table size does not come from the stored header field", where=where(new, b))
    ctx.check(init_ok, "size-hint-exact", "init-from-stored-count", "the iterator's remaining counter is not initialised from the stored item count", where=where(new))
    stores = [(b, s) for f, b, s in field_stores(prog, COUNTER) if f.id == nxt.id]
    ok = len(stores) == 1
    dec = None
    if ok:
        b, s = stores[0]
        cn = k7.Canon(prog, nxt)
        c = cn.op(s["rhs"].get("a", {}), b)
        ok = c[0] == "bin" and c[1] == "Sub" and c[3] == ("c", 1) and c[2][0] == "p" and c[2][2][-1].endswith(COUNTER)
        dec = b
    ctx.check(ok and not in_cycle(nxt, dec), "size-hint-exact", "one-decrement", "the iterator step must decrement the remaining counter by one at exactly one site outside any loop", where=where(nxt))
    somes = [b for b, s in ret_agg_blocks(nxt, "core::option::Option", "Some")]
    nones = [b for b, s in ret_agg_blocks(nxt, "core::option::Option", "None")]
    ctx.check(len(somes) >= 1 and len(nones) >= 1, "size-hint-exact", "returns", "iterator step lacks a Some or a None return", where=where(nxt))
    if dec is not None:
        # edges on which the counter is known to be zero (infeasible continuation towards Some)
        is_cnt = lambda x: x[0] == "p" and x[2] and x[2][-1].endswith(COUNTER)
        zero_edges = set()
        for (sb_, t_true, t_false, c) in k7.conditions(prog, nxt):
            if is_cnt(c[1]) and c[2] == ("c", 0):
                if c[0] == "Gt" or c[0] == "Ne":
                    zero_edges.add(t_false)
                if c[0] == "Eq":
                    zero_edges.add(t_true)
        zero_edges = {z for z in zero_edges if len(nxt.preds()[z]) == 1}
        for sb in somes:
            r = nxt.reachable_ok(0, avoid={dec} | zero_edges)
            ctx.check(sb not in r or sb == dec, "size-hint-exact", "some-implies-decrement", "an item can be yielded without decrementing the size hint", where=where(nxt, sb))
        for nb in nones:
            ctx.check(nb not in nxt.reachable_ok(nxt.normal_succs(dec)) and nb != dec, "size-hint-exact", "none-implies-no-decrement",
                      "the size hint is decremented on a path that yields nothing", where=where(nxt, nb))
        # Some only under counter != 0
        g_ok = False
        cn = k7.Canon(prog, nxt)
        for (sb, t_true, t_false, c) in k7.conditions(prog, nxt):
            is_cnt = lambda x: x[0] == "p" and x[2] and x[2][-1].endswith(COUNTER)
            if c[0] in ("Eq",) and is_cnt(c[1]) and c[2] == ("c", 0) and all(nxt.dominates(t_false, s_) for s_ in somes):
                g_ok = True
            if c[0] in ("Gt", "Ne") and is_cnt(c[1]) and c[2] == ("c", 0) and all(nxt.dominates(t_true, s_) for s_ in somes):
                g_ok = True
        ctx.check(g_ok, "size-hint-exact", "exhausted-stays-none", "Some can be returned while the remaining counter is 0 (next() after the end / hint underflow)", where=where(nxt))
    # size_hint returns (n, Some(n))
    hint = prog.find(name="size_hint", self_adt=ITERMUT, trait="core::iter::traits::iterator::Iterator")
    if hint:
        h = hint[0]
        ctx.touch(h)
        lo = tracer(prog, h).place({"l": 0, "p": ["f:0"]})
        hi = tracer(prog, h).place({"l": 0, "p": ["f:1", "dc:Some", "f:core::option::Option::Some.0"]})
        isc = lambda os_: bool(os_) and all(x.kind == "param" and x.proj and x.proj[-1].endswith(COUNTER) for x in os_)
        ctx.check(isc(lo) and isc(hi), "size-hint-exact", "hint-is-counter", "size_hint is not (remaining, Some(remaining)) (lower %s, upper %s)" % (lo, hi), where=where(h))
    # the item is (key, value) at the produced offset
    core_next = prog.find(name="next", self_adt=ITERMUT, trait="core::iter::traits::iterator::Iterator")
    if core_next:
        f = core_next[0]
        ctx.touch(f)
        # one step per next(); every offset the step produces is yielded (the step has already counted it)
        steps = calls_to(prog, f, target_fn=nxt)
        ok_step = len(steps) == 1 and not in_cycle(f, steps[0][0])
        ctx.check(ok_step, "item-at-scanned-offset", "one-step-per-next", "next() does not call the scan step exactly once, outside any loop (an offset produced by the step can be skipped)", where=where(f))
        if len(steps) == 1:
            from .util import enum_switches
            sws = [sw for sw in enum_switches(prog, f) if sw["src"] and all(is_call_to(prog, f, x, nxt) and not x.proj for x in sw["src"])]
            good = len(sws) == 1
            if good:
                some_e = sws[0]["targets"].get(1)
                nones_ = [b for b, s_ in ret_agg_blocks(f, "core::option::Option", "None")]
                good = some_e is not None and not any(nb in f.reachable_ok(some_e) for nb in nones_) and steps[0][0] not in f.reachable_ok(some_e)
            ctx.check(good, "item-at-scanned-offset", "some-step-yields", "after the step produced an offset, next() can return None or step again: a live entry is dropped and the size hint runs ahead", where=where(f))
        for role, nm in (("LOAD_KEY", "key"), ("LOAD_VALUE", "value")):
            sites = calls_to(prog, f, target_fn=R.need(role))
            ok = len(sites) == 1
            if ok:
                o = origins(prog, f, sites[0][1]["args"][1], at=sites[0][0])
                ok = bool(o) and all(is_call_to(prog, f, x, nxt) for x in o)
            ctx.check(ok, "item-at-scanned-offset", nm, "the %s yielded is not loaded at the offset produced by the scan step" % nm, where=where(f))
        for b, s in ret_agg_blocks(f, "core::option::Option", "Some"):
            o = origins(prog, f, s["rhs"]["ops"][0], at=b)
            good = False
            for x in o:
                if x.kind == "agg" and x.data.get("agg") == "tuple" and len(x.data["ops"]) == 2:
                    crate_calls = lambda os_: [y for y in os_ if y.kind == "call" and (y.data.get("callee") or "").startswith("abyssiniandb::")]
                    k = crate_calls(leaf_origins(prog, f, x.data["ops"][0], at=x.block))
                    v = crate_calls(leaf_origins(prog, f, x.data["ops"][1], at=x.block))
                    good = all(is_call_to(prog, f, y, R.need("LOAD_KEY")) for y in k) and all(is_call_to(prog, f, y, R.need("LOAD_VALUE")) for y in v) and bool(k) and bool(v)
            ctx.check(good, "item-at-scanned-offset", "pair-order", "the yielded pair is not (key, value) of the same record", where=where(f, b))
    # the scan step advances along the chain, then to the next bucket via SCAN with (table size, index)
    sc = calls_to(prog, nxt, target_fn=R.need("SCAN"))
    ctx.check(len(sc) == 1, "scan-step", "one-scan-call", "expected one call of the bucket scanner in the iterator step", where=where(nxt))
    na = calls_to(prog, nxt, target_fn=R.need("NEXT_AT"))
    ctx.check(len(na) == 1, "scan-step", "chain-advance", "the iterator step does not follow the chain link of the current record", where=where(nxt))


def _state_sources(prog, fn, op, at, R):
    """Classify every origin of an operand of the iterator step as a named source, or None if unrecognised."""
    out = set()
    scan, nat = R.need("SCAN"), R.need("NEXT_AT")
    for o in origins(prog, fn, op, at=at):
        if o.kind == "param" and o.data == 1 and o.proj and o.proj[-1].startswith("f:DbXxxIterMut."):
            nm_ = o.proj[-1].split(".")[-1]
            canon_ = {fname(prog, "ITER.key_offset"): "key_offset", fname(prog, "ITER.index"): "buckets_idx",
                      fname(prog, "ITER.table_size"): "buckets_size", fname(prog, "ITER.counter"): "remaining_item_count"}
            out.add("field:" + canon_.get(nm_, nm_))
        elif o.kind == "call" and is_call_to(prog, fn, o, scan):
            out.add("scan" + "".join("." + p_[2:] for p_ in o.proj if p_.startswith("f:")))
        elif o.kind == "call" and is_call_to(prog, fn, o, nat):
            out.add("chain-next" + "".join("." + p_[2:] for p_ in o.proj if p_.startswith("f:")))
        elif o.kind == "call" and (o.data.get("callee") or "").endswith(("::unwrap", "::expect")) and o.data.get("args"):
            inner = _state_sources(prog, fn, o.data["args"][0], o.block, R)
            sfx = "".join("." + p_[2:] for p_ in o.proj if p_.startswith("f:"))
            out |= {(x + sfx) if x else None for x in inner}
        else:
            out.add(None)
    return out


def check_scan_state(ctx, prog, R):
    """The iterator's cursor (bucket index, current key offset) only ever takes values produced by the scanner or by
    following the chain link of the current record, and they are fed back into the right parameter."""
    new, nxt = R.need("ITER_NEW"), R.need("ITER_NEXT")
    rule = "scan-state"
    allowed = {"DbXxxIterMut.key_offset": {"field:key_offset", "chain-next", "scan.1"},
               "DbXxxIterMut.buckets_idx": {"field:buckets_idx", "scan.0"}}
    need = {"DbXxxIterMut.key_offset": {"chain-next", "scan.1"}, "DbXxxIterMut.buckets_idx": {"scan.0"}}
    actual = {"DbXxxIterMut.key_offset": fq(prog, "ITER.key_offset"), "DbXxxIterMut.buckets_idx": fq(prog, "ITER.index")}
    for fld, ok_set in allowed.items():
        seen = set()
        sts = [(f, b, s_) for f, b, s_ in field_stores(prog, actual[fld]) if f.id != new.id]
        ctx.check(all(f.id == nxt.id for f, b, s_ in sts) and sts, rule, fld.split(".")[-1] + ":writers",
                  "the iterator field %s is stored outside the constructor and the scan step (%s)" % (fld, sorted({short(f.id) for f, b, s_ in sts})))
        for f, b, s_ in sts:
            if f.id != nxt.id:
                continue
            src = _state_sources(prog, f, s_["rhs"].get("a", {}), b, R) if s_["rhs"]["rv"] == "use" else {None}
            seen |= src
            ctx.check(src <= ok_set, rule, "%s:store-sources" % fld.split(".")[-1],
                      "the iterator's %s is set from %s; only %s keep the traversal on the table's chains" % (fld.split(".")[-1], sorted(str(x) for x in src), sorted(ok_set)), where=where(f, b))
        ctx.check(need[fld] <= seen, rule, "%s:advances" % fld.split(".")[-1], "the iterator's %s is never advanced from %s" % (fld.split(".")[-1], sorted(need[fld] - seen)), where=where(nxt))
    for b, t in calls_to(prog, nxt, target_fn=R.need("SCAN")):
        a1 = _state_sources(prog, nxt, t["args"][1], b, R)
        a2 = _state_sources(prog, nxt, t["args"][2], b, R)
        ctx.check(a1 == {"field:buckets_size"}, rule, "scan-arg:table-size", "the scanner is not given the iterator's table size (%s)" % sorted(str(x) for x in a1), where=where(nxt, b))
        ctx.check(a2 <= {"field:buckets_idx", "scan.0"} and "field:buckets_idx" in a2, rule, "scan-arg:index",
                  "the scanner is not resumed at the iterator's bucket index / the index it returned last (%s)" % sorted(str(x) for x in a2), where=where(nxt, b))
    for b, t in calls_to(prog, nxt, target_fn=R.need("NEXT_AT")):
        a1 = _state_sources(prog, nxt, t["args"][1], b, R)
        ctx.check(a1 == {"field:key_offset"}, rule, "chain-arg", "the chain link is not read from the current record (%s)" % sorted(str(x) for x in a1), where=where(nxt, b))
    for b, s_ in ret_agg_blocks(nxt, "core::option::Option", "Some"):
        src = _state_sources(prog, nxt, s_["rhs"]["ops"][0], b, R)
        ctx.check(bool(src) and src <= {"field:key_offset", "chain-next", "scan.1"}, rule, "yield", "the offset yielded is not the iterator's current key offset (%s)" % sorted(str(x) for x in src), where=where(nxt, b))
    # the constructor starts at bucket 0 with no current record
    for b, blk in enumerate(new.blocks):
        for s_ in blk["stmts"]:
            if s_["s"] == "assign" and s_["rhs"]["rv"] == "agg" and s_["rhs"].get("adt") == ITERMUT:
                flds = s_["rhs"]["fields"]
                for fld, frole in (("buckets_idx", "ITER.index"), ("key_offset", "ITER.key_offset")):
                    o = leaf_origins(prog, new, s_["rhs"]["ops"][flds.index(fname(prog, frole))], at=b, terminal_only=True)
                    zero = bool(o) and all((x.kind == "const" and x.data == 0) or
                                           (x.kind == "call" and x.data.get("args") and const_val(x.data["args"][0]) == 0 and (x.data.get("callee") or "").endswith("::new")) for x in o)
                    ctx.check(zero, rule, "init:" + fld, "a new iterator does not start with %s = 0" % fld, where=where(new, b))


def _find_exprs(c, pred, out):
    if pred(c):
        out.append(c)
    if c[0] == "bin":
        _find_exprs(c[2], pred, out)
        _find_exprs(c[3], pred, out)
    return out


def check_io_positioned(ctx, prog, R):
    """The hash-table file has ONE cursor shared by every call on the map (lookups, the count, other iterators).  So no
    function of the htx layer may rely on where an earlier call left it: every raw read / write / relative seek in a
    function of that module is dominated, on success paths, by an absolute seek in the same function."""
    from .roles import M_HTX
    seek = R.need("SEEK_START")
    rel = {f.id for f in (R.get("SEEK_BACK"),) if f is not None}
    n = 0
    for f in sorted(prog.fns.values(), key=lambda x: x.id):
        if f.crate != "abyssiniandb" or f.module != M_HTX or f.kind == "Closure":
            continue
        raw = [(b, t) for b, t in f.calls() if not f.is_cleanup(b) and ((t.get("callee") or "").startswith("rabuf::") or any(x.id in rel for x in prog.targets(t, f)[0]))]
        raw = [(b, t) for b, t in raw if not (t.get("callee") or "").endswith(("::seek_to_end", "::set_len", "::flush", "::sync_all", "::sync_data", "::clear"))
               and "Seek" not in (t.get("callee") or "").rsplit("::", 2)[-2]]
        if not raw:
            continue
        ctx.touch(f, len(raw))
        sk = [b for b, t in calls_to(prog, f, target_fn=seek)]
        bad = [(b, t) for b, t in raw if not any(f.dominates(s_, b) and s_ != b for s_ in sk)]
        n += len(raw)
        ctx.check(not bad, "io-positioned", f.name,
                  "%s reads or writes the hash-table file at wherever an earlier call left the shared cursor (%s is not preceded by an absolute seek on every path)"
                  % (f.name, (bad[0][1].get("callee") or "?").rsplit("::", 1)[-1] if bad else ""), where=where(f, bad[0][0]) if bad else where(f))
    ctx.floor("io-positioned", "raw accesses of the hash-table file", n, 9)


def check_layout_agreement(ctx, prog, R):
    """Bucket slot address = HEADER + 8*idx in loader, store and scanner; bitmap base = HEADER + 8*n in store, scanner
    and (as part of the length) the open; all with the same header constant."""
    store, load, scan, hopen = R.need("BUCKET_STORE"), R.need("BUCKET_LOAD"), R.need("SCAN"), R.need("HTX_OPEN")
    seek = R.need("SEEK_START")

    def seek_exprs(fn):
        cn = k7.Canon(prog, fn)
        return [(b, cn.op(t["args"][1], b)) for b, t in calls_to(prog, fn, target_fn=seek)]

    def is_mul8(c):
        return c[0] == "bin" and c[1] == "Mul" and (c[2] == ("c", 8) or c[3] == ("c", 8))

    def base(c):
        """(header constant, multiplied operand) if c contains Add(const H, Mul(x, 8))"""
        hits = _find_exprs(c, lambda e: e[0] == "bin" and e[1] == "Add" and ((e[2][0] == "c" and is_mul8(e[3])) or (e[3][0] == "c" and is_mul8(e[2]))), [])
        out = []
        for e in hits:
            h, m = (e[2], e[3]) if e[2][0] == "c" else (e[3], e[2])
            x = m[3] if m[2] == ("c", 8) else m[2]
            out.append((h[1], x))
        return out
    hdr = None
    from .consts import const_id
    from .roles import M_HTX
    c = prog.consts.get(const_id(prog, M_HTX, "HTX_HEADER_SZ") or "")
    if c and "int" in (c.get("v") or {}):
        hdr = int(c["v"]["int"])
    ctx.check(hdr is not None, "layout-agreement", "header-const", "HTX_HEADER_SZ constant not found")
    n = 0
    for fn, role in ((load, "BUCKET_LOAD"), (store, "BUCKET_STORE"), (scan, "SCAN")):
        ctx.touch(fn)
        bases = [x for b, e in seek_exprs(fn) for x in base(e)]
        n += len(bases)
        ctx.check(bool(bases) and all(h == hdr for h, _ in bases), "layout-agreement", role + ":header",
                  "%s addresses the table with a header size other than HTX_HEADER_SZ (%s)" % (role, bases), where=where(fn))
    ctx.floor("layout-agreement", "table address expressions", n, 5 if c04bitmap.has_bitmap(prog) else 3)
    if c04bitmap.has_bitmap(prog):
        # bitmap base uses the *table size* operand, slot address uses the *index* operand
        for fn, role, size_param, idx_name in ((store, "BUCKET_STORE", 2, 3), (scan, "SCAN", 2, 3)):
            bases = [x for b, e in seek_exprs(fn) for x in base(e)]
            by_size = [x for h, x in bases if x[0] == "p" and x[1] == size_param]
            ctx.check(bool(by_size), "layout-agreement", role + ":bitmap-base", "%s does not locate the bitmap at HEADER + 8*table_size" % role, where=where(fn))
        # the open sizes the file as HEADER + 8n + n/8
        setlen = calls_to(prog, hopen, target_fn=R.need("SET_LEN"))
        ok = False
        if len(setlen) == 1:
            cn = k7.Canon(prog, hopen)
            e = cn.op(setlen[0][1]["args"][1], setlen[0][0])
            bs = base(e)
            divs = _find_exprs(e, lambda x: x[0] == "bin" and x[1] == "Div" and x[3] == ("c", 8), [])
            ok = bool(bs) and all(h == hdr for h, _ in bs) and bool(divs) and all(k7.same(d[2], bs[0][1]) for d in divs)
        ctx.check(ok, "layout-agreement", "open:file-length", "the hash-table file is not sized HEADER + 8*n + n/8 for the same n", where=where(hopen))


def check_scan_compensation(ctx, prog, R):
    scan = R.need("SCAN")
    cn = k7.Canon(prog, scan)
    defs = scan.defs()
    # strided increments inside loops:  v = v + C
    strides = {}
    comps = []
    for b, blk in enumerate(scan.blocks):
        if blk["cleanup"]:
            continue
        for s in blk["stmts"]:
            if s["s"] != "assign" or s["lhs"]["p"]:
                continue
            v = s["lhs"]["l"]
            if s["rhs"]["rv"] != "use":
                continue
            c = cn.op(s["rhs"]["a"], b)
            if c[0] == "bin" and c[1] in ("Add", "Sub") and c[2][0] == "var" and c[2][1] == v and c[3][0] == "c":
                if c[1] == "Add" and in_cycle(scan, b):
                    strides.setdefault((v, c[3][1]), []).append(b)
                if c[1] == "Sub":
                    comps.append((b, v, c[3][1]))
    n = 0
    for b, v, C in comps:
        if (v, C) not in strides:
            continue
        n += 1
        name = scan.local_name(v) or "_%d" % v
        # controlling guard
        guard = None
        for (sb, t_true, t_false, c) in k7.conditions(prog, scan):
            for edge, tgt, other in ((True, t_true, t_false), (False, t_false, t_true)):
                if scan.dominates(tgt, b) and not scan.dominates(other, b) and all(p == sb for p in scan.preds()[tgt]):
                    if guard is None or scan.dominates(guard[0], sb):
                        guard = (sb, edge, c)
        if guard is None:
            ctx.ok("scan-compensation", "%s-=%d" % (name, C), "unconditional (value-dependent; not covered by this rule)")
            continue
        op, X, Y = guard[2]
        evidence = False
        plv = k7.pre_loop_value(prog, scan, v, at=b)
        for a, o in ((X, Y), (Y, X)):
            if a is None or o is None or not (a[0] == "var" and a[1] == v):
                continue
            if o[0] == "var" and _is_snapshot(scan, o[1], v, strides[(v, C)]):
                evidence = True
            if plv is not None and k7.same(o, plv[0]) and op in ("Gt", "Lt", "Ne"):
                evidence = True     # compared with the value the index had before the loop
        ctx.check(evidence, "scan-compensation", "%s-=%d" % (name, C),
                  "the scanner undoes a strided loop's overshoot (`%s -= %d`) under the guard `%s %s %s`, which is not evidence that the loop "
                  "body ran: when the loop is skipped with %s >= %d the scan steps back over buckets it has already visited and entries are yielded twice "
                  "(and others omitted)" % (name, C, k7.expr_str(X), op, k7.expr_str(Y) if Y else "", name, C),
                  where=where(scan, b), expected="guard comparing the index with a snapshot taken before the loop, or a flag set in the loop body")
    ctx.floor("scan-compensation", "strided-loop compensations in the scanner", n, 1 if c04bitmap.has_bitmap(prog) else 0)


def _is_snapshot(fn, w, v, loop_blocks):
    """All definitions of w are plain copies of v located outside the loop blocks."""
    ds = fn.defs().get(w, [])
    if not ds:
        return False
    for (b, kind, payload) in ds:
        if kind != "assign" or payload["lhs"]["p"] or payload["rhs"]["rv"] != "use":
            return False
        a = payload["rhs"]["a"]
        if a.get("k") not in ("cp", "mv") or a["pl"]["p"] or a["pl"]["l"] != v:
            return False
        if b in loop_blocks or any(b in fn.reachable(fn.normal_succs(lb)) and lb in fn.reachable(fn.normal_succs(b)) for lb in loop_blocks):
            return False
    return True


def check(ctx):
    _check_own(ctx)
    from .engine import import_rules
    # size hints and the end of iteration come from the stored item count: it must step with every insert / delete
    import_rules(ctx, "c05", {"count-writers", "count-step", "count-arm", "field-position", "stored-length-read"})
    import_rules(ctx, "c01", {"op-wiring"})
    # the key an iterator yields is built with the key type's from_bytes
    import_rules(ctx, "c10", {"byte-identity"})
    # the iterator reads the table size from the header; lookups use the cached one: they must be the same number
    import_rules(ctx, "c07", {"stored-count-wins"})
