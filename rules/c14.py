"""C14 - bulk and convenience calls equal their element-wise counterparts."""
from .model import short, const_val
from .util import where, origins, leaf_origins, tracer, in_cycle, calls_to

EXPLANATION = (
    "Delegation table + shape rules over the 14 default methods of the DbXxx trait (K4/K1): get/put/delete/includes_key "
    "convert the key with From::from and call exactly get_kt/put_kt/del_kt/includes_key_kt with it (put also passes the "
    "value parameter); the *_string variants call their byte variant and only pre/post-process (as_bytes / "
    "from_utf8_lossy); bulk_get/bulk_delete call self.get/self.delete once per element popped from a work list built "
    "from enumerate() of the input, collect (index, result) pairs whose index is the popped element's index, sort that "
    "list by the index component ascending after the loop, and return the projected results; bulk_put(_string) call "
    "self.put once per element of a copy of the batch with that element's key and value; put_from_iter calls put_kt in "
    "a loop over the argument iterator with no reordering adaptor; no impl of the trait in the lib overrides a provided "
    "method; the batch position is not narrowed by an integer cast.")
NOT_DECIDED = ("equality of the resulting map states (that is C01 composed with this delegation); behaviour for batches with "
               "repeated keys beyond what the property states.")
ASSUMPTIONS = ["slice::sort_by / sort_unstable_by, Vec::pop/push, Iterator::enumerate/map/collect behave as documented"]

DBXXX = "abyssiniandb::DbXxx"
OBJ = "abyssiniandb::DbXxxObjectSafe"
# method -> (set of trait-method callees it may use, required)
TABLE = {
    "get": {OBJ + "::get_kt"}, "put": {OBJ + "::put_kt"}, "delete": {OBJ + "::del_kt"}, "includes_key": {OBJ + "::includes_key_kt"},
    "get_string": {DBXXX + "::get"}, "put_string": {DBXXX + "::put"}, "delete_string": {DBXXX + "::delete"},
    "bulk_get": {DBXXX + "::get"}, "bulk_delete": {DBXXX + "::delete"},
    "bulk_get_string": {DBXXX + "::bulk_get"}, "bulk_delete_string": {DBXXX + "::bulk_delete"},
    "bulk_put": {DBXXX + "::put"}, "bulk_put_string": {DBXXX + "::put"},
    "put_from_iter": {OBJ + "::put_kt"},
}
REORDER = ("sort", "sort_by", "sort_unstable", "sort_unstable_by", "sort_by_key", "rev", "reverse", "dedup", "retain", "swap")


def crate_trait_calls(fn, include_closures=None):
    out = []
    for b, t in fn.calls():
        c = t.get("callee") or ""
        if c.startswith(DBXXX + "::") or c.startswith(OBJ + "::") or c.startswith("abyssiniandb::DbXxxBase::"):
            out.append((b, t))
    return out


def cname(t):
    return (t.get("callee") or "").rsplit("::", 1)[-1]


def check(ctx):
    prog = ctx.prog
    methods = {f.name: f for f in prog.fns.values() if f.trait_default_of == DBXXX and f.kind == "AssocFn"}
    ctx.floor("delegation", "default methods of DbXxx", len(methods), 14)
    extra = sorted(set(methods) - set(TABLE))
    ctx.check(not extra, "delegation", "table-complete", "DbXxx has default methods not in the delegation table: %s" % extra)
    # the default bodies analysed here are the ones that run: no impl of the trait in the lib overrides one of them
    n_impl = 0
    for i in prog.impls:
        if i.get("crate") == "abyssiniandb" and i.get("trait") == DBXXX:
            n_impl += 1
            over = sorted(it["name"] for it in i.get("items", []) if it["name"] in methods)
            ctx.check(not over, "delegation", "no-override:" + short(i.get("self") or "?"),
                      "%s overrides the provided method(s) %s of DbXxx with its own body: the element-wise default is not what runs for this type" % (short(i.get("self") or "?"), over))
    ctx.floor("delegation", "impls of DbXxx in the lib", n_impl, 1)
    for name, allowed in TABLE.items():
        fn = methods.get(name)
        if not ctx.check(fn is not None, "delegation", name + ":anchor", "DbXxx::%s default method not found" % name):
            continue
        ctx.touch(fn, len(fn.blocks))
        calls = crate_trait_calls(fn)
        for c in prog.closures_of(fn):
            calls += crate_trait_calls(c)
        got = {t["callee"] for b, t in calls}
        ctx.check(got == allowed, "delegation", name, "DbXxx::%s calls %s, expected exactly %s" % (name, sorted(short(x) for x in got), sorted(short(x) for x in allowed)), where=where(fn))
        sites = [(b, t) for b, t in crate_trait_calls(fn)]
        if name in ("get", "put", "delete", "includes_key"):
            ok = len(sites) == 1 and not fn.success_reach_return(0, [sites[0][0]])
            if ok:
                b, t = sites[0]
                k = origins(prog, fn, t["args"][1], at=b)
                ok = bool(k) and all(x.kind == "call" and x.data.get("callee") == "core::convert::From::from"
                                     and all(y.kind == "param" and y.data == 2 for y in origins(prog, fn, x.data["args"][0], at=x.block)) for x in k)
                if name == "put":
                    v = origins(prog, fn, t["args"][2], at=b)
                    ok = ok and bool(v) and all(y.kind == "param" and y.data == 3 for y in v)
                r = tracer(prog, fn).place({"l": 0, "p": []})
                ok = ok and bool(r) and all(x.kind == "call" and x.block == b and not x.proj for x in r)
            ctx.check(ok, "delegation", name + ":args", "DbXxx::%s does not pass From::from(key)%s to its *_kt method and return its result" % (name, " and the value" if name == "put" else ""), where=where(fn))
        elif name in ("get_string", "delete_string", "put_string"):
            ok = len(sites) == 1 and not fn.success_reach_return(0, [sites[0][0]])
            if ok:
                b, t = sites[0]
                k = origins(prog, fn, t["args"][1], at=b)
                ok = bool(k) and all(y.kind == "param" and y.data == 2 for y in k)
                if name == "put_string":
                    v = origins(prog, fn, t["args"][2], at=b)
                    ok = ok and bool(v) and all(y.kind == "call" and (y.data.get("callee") or "").endswith("::as_bytes")
                                                and all(z.kind == "param" and z.data == 3 for z in origins(prog, fn, y.data["args"][0], at=y.block)) for y in v)
                else:
                    lossy = any((tt.get("callee") or "").endswith("String::from_utf8_lossy") for c in [fn] + prog.closures_of(fn) for bb, tt in c.calls())
                    ok = ok and lossy
            ctx.check(ok, "delegation", name + ":args", "DbXxx::%s is not its byte variant composed with UTF-8 encoding / lossy decoding" % name, where=where(fn))
        elif name in ("bulk_get_string", "bulk_delete_string"):
            ok = len(sites) == 1
            if ok:
                b, t = sites[0]
                k = origins(prog, fn, t["args"][1], at=b)
                ok = bool(k) and all(y.kind == "param" and y.data == 2 for y in k)
                lossy = any((tt.get("callee") or "").endswith("String::from_utf8_lossy") for c in [fn] + prog.closures_of(fn) for bb, tt in c.calls())
                reorder = [cname(tt) for bb, tt in fn.calls() if cname(tt) in REORDER]
                ok = ok and lossy and not reorder
            ctx.check(ok, "delegation", name + ":args", "DbXxx::%s is not bulk byte variant + in-order lossy decoding" % name, where=where(fn))
        if name.startswith("bulk_"):
            check_no_element_dropped(ctx, prog, fn, name)
        if name in ("get_string", "delete_string", "bulk_get_string", "bulk_delete_string"):
            check_lossy_only(ctx, prog, fn, name)
        if name in ("bulk_get", "bulk_delete"):
            check_bulk_indexed(ctx, prog, fn, name, sites)
        elif name in ("bulk_put", "bulk_put_string"):
            check_bulk_put(ctx, prog, fn, name, sites)
        elif name == "put_from_iter":
            ok = len(sites) == 1 and in_cycle(fn, sites[0][0])
            reorder = [cname(tt) for bb, tt in fn.calls() if cname(tt) in REORDER or cname(tt) in ("collect",)]
            nxt = [(bb, tt) for bb, tt in fn.calls() if (tt.get("callee") or "") == "core::iter::traits::iterator::Iterator::next"]
            if ok:
                b, t = sites[0]
                kv = [leaf_origins(prog, fn, t["args"][i], at=b, terminal_only=True) for i in (1, 2)]
                from_next = lambda os_, f: bool(os_) and all(x.kind == "call" and x.data.get("callee") == "core::iter::traits::iterator::Iterator::next" and x.proj and x.proj[-1] == f for x in os_)
                ok = from_next(kv[0], "f:0") and from_next(kv[1], "f:1")
            ctx.check(ok and not reorder and len(nxt) == 1, "delegation", name + ":in-order",
                      "put_from_iter does not apply put_kt(key, value) to each pair in iteration order (reordering calls: %s)" % reorder, where=where(fn))


# std collection / iterator / string methods that neither drop, duplicate nor alter elements
KEEPS_ALL = {"to_vec", "collect", "new", "with_capacity", "deref", "deref_mut", "iter", "iter_mut", "into_iter", "enumerate", "map", "rev",
             "cloned", "copied", "next", "pop", "push", "len", "is_empty", "as_slice", "as_mut_slice", "as_ref", "as_mut", "borrow",
             "sort", "sort_by", "sort_by_key", "sort_by_cached_key", "sort_unstable", "sort_unstable_by", "sort_unstable_by_key", "reverse",
             "cmp", "partial_cmp", "then", "then_with", "clone", "into", "from", "unwrap", "expect", "branch", "from_residual", "for_each",
             "index", "index_mut", "get", "get_mut", "first", "last", "reserve", "extend", "zip", "by_ref", "size_hint", "drop", "from_iter"}
LOSSY_OK = {"deref", "as_ref", "as_slice", "borrow", "from_utf8_lossy", "to_string", "into_owned", "to_owned", "into", "from", "clone", "map",
            "from_utf8", "as_bytes", "into_bytes"}


def _all_closures(prog, fn):
    out = []
    for c in prog.closures_of(fn):
        out.append(c)
        out += _all_closures(prog, c)
    return out


def check_no_element_dropped(ctx, prog, fn, name):
    """Every std collection / iterator method used by a bulk method keeps all elements (no dedup / retain / filter /
    truncate / skip / take ...): the batch is only copied, permuted, consumed and indexed."""
    bad = []
    for c in [fn] + _all_closures(prog, fn):
        for b, t in c.calls():
            if c.is_cleanup(b):
                continue
            cal = t.get("callee") or ""
            if cal.startswith(("core::iter::", "core::slice::", "alloc::slice::", "alloc::vec::", "core::option::Option", "alloc::collections::")):
                nm = cal.rsplit("::", 1)[-1]
                if nm not in KEEPS_ALL:
                    bad.append((c, b, short(cal)))
    ctx.check(not bad, "bulk-keeps-every-element", name, "%s uses %s on its work list: elements of the batch can be dropped, repeated or cut"
              % (name, sorted({x[2] for x in bad})), where=where(bad[0][0], bad[0][1]) if bad else where(fn))


def check_lossy_only(ctx, prog, fn, name):
    """The *_string readers decode the whole value with String::from_utf8_lossy and nothing else."""
    decs = []
    bad = []
    for c in [fn] + _all_closures(prog, fn):
        for b, t in c.calls():
            if c.is_cleanup(b):
                continue
            cal = t.get("callee") or ""
            nm = cal.rsplit("::", 1)[-1]
            if cal.endswith("String::from_utf8_lossy"):
                decs.append((c, b, t))
            elif cal.startswith(("alloc::string::", "alloc::str::", "core::str::", "alloc::borrow::")) and nm not in LOSSY_OK:
                bad.append((c, b, short(cal)))
    seen = set()
    decs = [d for d in decs if (d[0].id, d[1]) not in seen and not seen.add((d[0].id, d[1]))]
    ok = len(decs) >= 1 and not bad
    homes = {c.id for c, b, t in decs}
    ok = ok and len(homes) == 1

    def whole_value(c, os_, depth=0):
        """origins are the closure's value parameter as a whole, possibly via the error of a strict from_utf8 of it"""
        os_ = _strip(prog, c, os_)
        if not os_:
            return False
        for x in os_:
            if x.kind in ("param", "local") and not [p_ for p_ in x.proj if p_.startswith(("idx", "sub"))]:
                continue
            if x.kind == "call" and (x.data.get("callee") or "").rsplit("::", 1)[-1] not in ("from_utf8", "as_bytes", "into_bytes", "into_vec", "split_at", "get", "split_off", "truncate") \
                    and not [p_ for p_ in x.proj if p_.startswith(("idx", "sub"))]:
                continue       # the value handed over by the byte-level call (payload of its Ok / Some), as a whole
            if x.kind == "call" and (x.data.get("callee") or "") in ("abyssiniandb::DbXxx::get", "abyssiniandb::DbXxx::delete") and not [p_ for p_ in x.proj if p_.startswith(("idx", "sub"))]:
                continue
            if x.kind == "call" and depth < 4 and (x.data.get("callee") or "").rsplit("::", 1)[-1] in ("from_utf8", "as_bytes", "into_bytes", "into_vec") and x.data.get("args") \
                    and whole_value(c, leaf_origins(prog, c, x.data["args"][0], at=x.block, terminal_only=True, opaque_index=True), depth + 1):
                continue
            return False
        return True
    if ok:
        c = decs[0][0]
        for _, b, t in decs:
            ok = ok and whole_value(c, leaf_origins(prog, c, t["args"][0], at=b, terminal_only=True, opaque_index=True))
        r = _strip_str(prog, c, tracer(prog, c).place({"l": 0, "p": []})) if c.kind == "Closure" or c.id != fn.id else []
        dec_blocks = {b for _, b, t in decs}
        for x in r:
            if x.kind == "call" and x.block in dec_blocks:
                continue
            if x.kind == "call" and (x.data.get("callee") or "").endswith("String::from_utf8") and whole_value(c, leaf_origins(prog, c, x.data["args"][0], at=x.block, terminal_only=True, opaque_index=True)):
                continue
            ok = False
        ok = ok and (bool(r) or c.id == fn.id)
    ctx.check(ok, "string-variant-is-lossy-decoding", name,
              "%s does not return String::from_utf8_lossy(<the whole value>) (decoders: %d, other string calls: %s)" % (name, len(decs), sorted({x[2] for x in bad})),
              where=where(fn))


def _strip_str(prog, fn, os_, depth=0):
    out = []
    for o in os_:
        if o.kind == "agg" and depth < 5 and o.data.get("adt") in ("core::option::Option", "core::result::Result"):
            if o.data.get("variant") in ("Some", "Ok") and o.data.get("ops"):
                out.extend(_strip_str(prog, fn, leaf_origins(prog, fn, o.data["ops"][0], at=o.block, terminal_only=True), depth + 1))
            continue        # None / Err carry no decoded text

        if o.kind == "call" and depth < 5 and (o.data.get("callee") or "").rsplit("::", 1)[-1] in ("to_string", "into_owned", "to_owned", "into", "from", "clone") and o.data.get("args"):
            out.extend(_strip_str(prog, fn, leaf_origins(prog, fn, o.data["args"][0], at=o.block, terminal_only=True), depth + 1))
        else:
            out.append(o)
    return out


def _closure_arg(prog, fn, t, b):
    """closure Fn objects passed (directly) as arguments of call t"""
    out = []
    for a in t["args"][1:]:
        for o in origins(prog, fn, a, at=b):
            if o.kind == "agg" and o.data.get("agg") == "closure" and o.data.get("closure") in prog.fns:
                out.append(prog.fns[o.data["closure"]])
    return out


def _chain_to(prog, fn, op, at, through, stop):
    """Follow the receiver chain of iterator / collection adaptors named in `through` from operand `op` until stop(origin)
    holds for every leaf; True if so."""
    todo = [(o, 0) for o in leaf_origins(prog, fn, op, at=at, terminal_only=True)]
    if not todo:
        return False
    while todo:
        o, d = todo.pop()
        if stop(o):
            continue
        if o.kind == "call" and cname(o.data) in through and o.data.get("args") and d < 10:
            nxt = leaf_origins(prog, fn, o.data["args"][0], at=o.block, terminal_only=True)
            if not nxt:
                return False
            todo.extend((x, d + 1) for x in nxt)
            continue
        return False
    return True


def check_bulk_indexed(ctx, prog, fn, name, sites):
    """bulk_get / bulk_delete: number the input with enumerate(), visit every (index, key) once (in any order), call the
    element operation with the element's key, record (the element's index, its result), restore the input order by
    sorting on the index, return the result components.  Loop and iterator spellings are interchangeable."""
    elem = "get" if name == "bulk_get" else "delete"
    ok = len(sites) == 1 and in_cycle(fn, sites[0][0])
    if not ctx.check(ok, "bulk-by-index", name + ":one-element-call-in-loop", "%s does not call self.%s exactly once inside its loop" % (name, elem), where=where(fn)):
        return
    b, t = sites[0]
    # one element per round: `vec.pop()` or the `next()` of an iterator over the work list; one push per round
    srcs = [(bb, tt) for bb, tt in fn.calls() if (tt.get("callee") or "").endswith(("Vec::<T, A>::pop", "Iterator::next")) and in_cycle(fn, bb) and not fn.is_cleanup(bb)]
    k = origins(prog, fn, t["args"][1], at=b)
    srcs = [(bb, tt) for bb, tt in srcs if any(x.kind == "call" and x.block == bb for x in k)] if len(srcs) > 1 else srcs
    pushes = [(bb, tt) for bb, tt in fn.calls() if (tt.get("callee") or "").endswith("Vec::<T, A>::push") and not fn.is_cleanup(bb)]
    sorts = [(bb, tt) for bb, tt in fn.calls() if cname(tt) in ("sort_by", "sort_unstable_by", "sort_by_key", "sort_unstable_by_key", "sort", "sort_unstable")]
    ctx.check(len(srcs) == 1 and len(pushes) == 1, "bulk-by-index", name + ":worklist", "%s: expected one element drawn from the work list and one push per round" % name, where=where(fn))
    if len(srcs) != 1 or len(pushes) != 1:
        return
    pb = srcs[0][0]
    # element call's key is the drawn element's key
    ctx.check(bool(k) and all(x.kind == "call" and x.block == pb and x.proj and x.proj[-1] == "f:1" for x in k), "bulk-by-index", name + ":element-key",
              "%s does not look up the key of the element it drew from the work list (%s)" % (name, k), where=where(fn, b))
    # pushed pair = (drawn index, element result)
    ps = origins(prog, fn, pushes[0][1]["args"][1], at=pushes[0][0])
    good = False
    for x in ps:
        if x.kind == "agg" and x.data.get("agg") == "tuple" and len(x.data["ops"]) == 2:
            i0 = origins(prog, fn, x.data["ops"][0], at=x.block)
            v0 = origins(prog, fn, x.data["ops"][1], at=x.block)
            good = bool(i0) and all(y.kind == "call" and y.block == pb and y.proj and y.proj[-1] == "f:0" for y in i0) \
                and bool(v0) and all(y.kind == "call" and y.block == b and y.proj[:1] == ("?ok",) for y in v0)
    ctx.check(good, "bulk-by-index", name + ":pair", "%s does not record (index of the element, result of self.%s for it)" % (name, elem), where=where(fn, pushes[0][0]))
    # the work list comes from enumerate() over the input
    en = [(bb, tt) for bb, tt in fn.calls() if cname(tt) == "enumerate"]
    ok = len(en) == 1
    if ok:
        ok = _chain_to(prog, fn, en[0][1]["args"][0], en[0][0], {"iter", "into_iter", "copied", "cloned", "deref", "as_ref", "as_slice"},
                       lambda o: (o.kind == "param" and o.data == 2) or (o.kind == "call" and cname(o.data) == "iter"))
        # a `.map(|(i, x)| (i, ..))` behind enumerate keeps the index component
        for bb, tt in fn.calls():
            if cname(tt) != "map" or not (tt.get("callee") or "").startswith("core::iter::"):
                continue
            if not _chain_to(prog, fn, tt["args"][0], bb, set(), lambda o: o.kind == "call" and o.block == en[0][0]):
                continue
            for c in _closure_arg(prog, fn, tt, bb):
                r = tracer(prog, c).place({"l": 0, "p": []})
                ok = ok and any(x.kind == "agg" and x.data.get("agg") == "tuple" for x in r)
                for x in r:
                    if x.kind == "agg" and x.data.get("agg") == "tuple":
                        a = origins(prog, c, x.data["ops"][0], at=x.block)
                        ok = ok and bool(a) and all(y.kind == "param" and y.proj == ("f:0",) for y in a)
    ctx.check(ok, "bulk-by-index", name + ":indices-from-enumerate", "%s does not number the input elements with enumerate()" % name, where=where(fn))
    # the position is carried as the usize enumerate() produced: a narrowing integer cast anywhere in the method (or its
    # closures) makes positions of a long batch collide (`i as u16`)
    NARROW = ("u8", "u16", "u32", "i8", "i16", "i32")
    casts = []
    for c in [fn] + _all_closures(prog, fn):
        for bb, blk in enumerate(c.blocks):
            if blk["cleanup"]:
                continue
            for st in blk["stmts"]:
                if st["s"] == "assign" and st["rhs"]["rv"] == "cast" and "IntToInt" in str(st["rhs"].get("kind")) and st["rhs"].get("ty") in NARROW:
                    src = origins(prog, c, st["rhs"]["a"], at=bb)
                    # ... of a value that is the position component of an enumerate() item / work-list element
                    if src and any(o.proj and o.proj[-1] == "f:0" and o.kind in ("param", "call") for o in src):
                        casts.append((c, bb))
    ctx.check(not casts, "bulk-by-index", name + ":index-not-narrowed",
              "%s narrows an integer with `as`: batch positions beyond the narrower type's range wrap around and results land at the wrong index" % name,
              where=where(casts[0][0], casts[0][1]) if casts else where(fn))
    # the result list is sorted by index, after the loop, before projection
    res_sorts = []
    for sb, st in sorts:
        recv = leaf_origins(prog, fn, st["args"][0], at=sb, terminal_only=True)
        tgt_push = leaf_origins(prog, fn, pushes[0][1]["args"][0], at=pushes[0][0], terminal_only=True)
        if {y.key() for y in recv} & {y.key() for y in tgt_push}:
            res_sorts.append((sb, st))
    ok = len(res_sorts) == 1 and not in_cycle(fn, res_sorts[0][0]) and res_sorts[0][0] in fn.reachable(fn.normal_succs(pushes[0][0]))
    if ok:
        sb, st = res_sorts[0]
        how = cname(st)
        if how in ("sort", "sort_unstable"):
            ok = True           # (index, result) tuples order by their first component; indices are distinct
        else:
            cls = _closure_arg(prog, fn, st, sb)
            ok = len(cls) == 1
            if ok and how in ("sort_by", "sort_unstable_by"):
                # comparator closure: Ord::cmp(&a.0, &b.0)
                cl = cls[0]
                cm = [(bb, tt) for bb, tt in cl.calls() if (tt.get("callee") or "") == "core::cmp::Ord::cmp"]
                ok = len(cm) == 1
                if ok:
                    a0 = leaf_origins(prog, cl, cm[0][1]["args"][0], at=cm[0][0], terminal_only=True)
                    a1 = leaf_origins(prog, cl, cm[0][1]["args"][1], at=cm[0][0], terminal_only=True)
                    ok = bool(a0) and bool(a1) and all(y.kind == "param" and y.data == 2 and y.proj == ("f:0",) for y in a0) \
                        and all(y.kind == "param" and y.data == 3 and y.proj == ("f:0",) for y in a1)
            elif ok:
                # key closure: |a| a.0
                r = tracer(prog, cls[0]).place({"l": 0, "p": []})
                ok = bool(r) and all(y.kind == "param" and y.data == 2 and y.proj == ("f:0",) for y in r)
    ctx.check(ok, "bulk-by-index", name + ":restored-by-index",
              "%s does not sort its (index, result) list ascending by the index component after the loop: results would be returned in key order, not in the order of the input" % name, where=where(fn))
    # returned vector is the projection of component 1
    proj = [c for c in prog.closures_of(fn) if any((tt.get("callee") or "") == "core::clone::Clone::clone" for bb, tt in c.calls())]
    ok = False
    for c in proj:
        for bb, tt in c.calls():
            if (tt.get("callee") or "") == "core::clone::Clone::clone":
                a = leaf_origins(prog, c, tt["args"][0], at=bb, terminal_only=True)
                if a and all(y.kind == "param" and y.data == 2 and y.proj == ("f:1",) for y in a):
                    ok = True
    if not ok:
        # `into_iter().map(|(_, value)| value)`: the component is moved out instead of cloned
        for c in prog.closures_of(fn):
            if c.kind != "Closure":
                continue
            r = tracer(prog, c).place({"l": 0, "p": []})
            if r and all(y.kind == "param" and y.data == 2 and y.proj == ("f:1",) for y in r):
                ok = True
    ctx.check(ok, "bulk-by-index", name + ":returns-results", "%s does not return the result components" % name, where=where(fn))


def check_bulk_put(ctx, prog, fn, name, sites):
    ok = len(sites) == 1 and in_cycle(fn, sites[0][0])
    if not ctx.check(ok, "bulk-put", name + ":one-put-in-loop", "%s does not call self.put exactly once inside its loop" % name, where=where(fn)):
        return
    b, t = sites[0]
    # one element is drawn from the work list per round: `vec.pop()` or the `next()` of an iterator over it
    pops = [(bb, tt) for bb, tt in fn.calls() if (tt.get("callee") or "").endswith(("Vec::<T, A>::pop", "Iterator::next")) and in_cycle(fn, bb)]
    copies = [(bb, tt) for bb, tt in fn.calls() if cname(tt) == "to_vec"]
    ok = len(pops) == 1 and len(copies) == 1
    if ok:
        pb = pops[0][0]
        k = origins(prog, fn, t["args"][1], at=b)
        v = leaf_origins(prog, fn, t["args"][2], at=b, terminal_only=True, opaque_index=True)
        ok = bool(k) and all(x.kind == "call" and x.block == pb and x.proj and x.proj[-1] == "f:0" for x in k)
        ok = ok and bool(v) and all(x.kind == "call" and x.block == pb and x.proj and x.proj[-1] == "f:1" for x in _strip(prog, fn, v))
        src = origins(prog, fn, copies[0][1]["args"][0], at=copies[0][0])
        ok = ok and bool(src) and all(y.kind == "param" and y.data == 2 for y in src)
    ctx.check(ok, "bulk-put", name + ":element", "%s does not put (key, value) of each element of a copy of the batch" % name, where=where(fn, b))


def _strip(prog, fn, os_):
    out = []
    for o in os_:
        if o.kind == "call" and (o.data.get("callee") or "").rsplit("::", 1)[-1] in ("as_bytes", "as_str", "deref", "as_ref", "as_slice", "borrow") and o.data.get("args"):
            out.extend(_strip(prog, fn, leaf_origins(prog, fn, o.data["args"][0], at=o.block, terminal_only=True, opaque_index=True)))
        else:
            out.append(o)
    return out
