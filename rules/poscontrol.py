"""Positive controls: every rule whose expected violation count on /repo is zero must fire on the planted shape in
fixtures/poscontrol (analysed by the same driver and the same rule code) on every run."""
from . import extract, k5, k7
from .model import Program
from .util import io_result_sites

_PROG = None


def prog():
    global _PROG
    if _PROG is None:
        _PROG = Program(extract.extract_fixture())
    return _PROG


def regex_control(ctx, rule, rx, expect_fn):
    p = prog()
    hits = {f.name for f, b, t in k5.matches(p, rx, crates=("poscontrol",))}
    ctx.check(expect_fn in hits, "positive-control", "%s:%s" % (rule, expect_fn),
              "the %s pattern does not fire on the planted fixture function %s: the zero count on /repo would be vacuous" % (rule, expect_fn))


def nondet_control(ctx):
    p = prog()
    want = {"time": "nondet_time", "process-id": "nondet_pid", "environment": "nondet_env", "random-state": "nondet_random_state"}
    for nm, rx in k5.NONDET:
        if nm not in want:
            continue
        hits = {f.name for f, b, t in k5.matches(p, rx, crates=("poscontrol",))}
        ctx.check(want[nm] in hits, "positive-control", "nondeterminism:" + nm, "the %s source pattern does not fire on the fixture" % nm)
    pc = {f.name for f, b, s in k5.ptr_casts(p, crates=("poscontrol",))}
    ctx.check("nondet_addr" in pc, "positive-control", "nondeterminism:address", "pointer-to-integer casts are not seen on the fixture")
    hi = {f.name for f, b, t in k5.matches(p, k5.HASH_ITER, crates=("poscontrol",))}
    ctx.check("hash_iteration_unsorted" in hi, "positive-control", "nondeterminism:hash-iteration", "hash-container iteration is not seen on the fixture")


def result_fate_control(ctx):
    p = prog()
    got = {}
    for fn in p.fns.values():
        for b, t, fate in io_result_sites(p, fn):
            got.setdefault(fn.name, set()).update(fate)
    ctx.check("dropped" in got.get("dropped_io_result", ()), "positive-control", "io-result:dropped", "a `let _ =` on an io::Result is not classified as dropped on the fixture (%s)" % got.get("dropped_io_result"))
    ctx.check("swallowed" in got.get("swallowed_io_result", ()), "positive-control", "io-result:swallowed", "`.is_ok()` on an io::Result is not classified as swallowed on the fixture")
    ctx.check("unwrap" in got.get("unwrapped_io_result", ()), "positive-control", "io-result:unwrap", "`.unwrap()` on an io::Result is not classified as unwrap on the fixture")


def sub_control(ctx):
    p = prog()
    res = {}
    for fn, b, s, A, B in k7.sub_sites(p, crate="poscontrol"):
        res[fn.name] = k7.guard_for(p, fn, b, A, B) is not None
    ctx.check(res.get("unguarded_sub") is False and res.get("guarded_sub") is True, "positive-control", "unsigned-sub",
              "guard dominance does not separate the planted guarded / unguarded subtraction (%s)" % res)
