"""Fact extraction: run the rustc_private driver over /repo's *current working tree*.

Nothing of abyssiniandb is executed: `cargo +nightly check` type-checks the
crate and the driver serialises MIR (mir_built), resolved callees, evaluated
constants, ADTs and impls to JSON.  Results are cached under /verif/.cache by a
SHA-256 over every input file (so a changed byte anywhere re-extracts).
"""
import hashlib
import json
import os
import shutil
import subprocess
import sys
import tempfile
import time

VERIF = os.path.dirname(os.path.dirname(os.path.abspath(__file__)))
REPO = os.environ.get("ABSY_REPO", "/repo")
DRIVER = os.path.join(VERIF, "driver", "target", "release", "absy-facts")
CACHE = os.path.join(VERIF, ".cache")

# crates whose bodies are analysed (the lib and its two format-relevant deps)
CRATES = ["abyssiniandb", "rabuf", "vu64"]

# feature configurations (see DESIGN.md 2.3); name -> cargo args
CONFIGS = {
    "default": [],
    "u64u64_bitmap": ["--no-default-features", "--features", "vf_u64u64,rabuf_default,htx_bitmap"],
    "vu64_nobitmap": ["--no-default-features", "--features", "vf_vu64,rabuf_default"],
    "print_hits": ["--features", "htx_print_hits"],
    "debug": ["--features", "abyssiniandb_debug"],
    "george1": ["--features", "myhasher_george1"],
    "std_hasher": ["--features", "std_default_hasher"],
}


def _sysroot():
    return subprocess.check_output(["rustc", "+nightly", "--print", "sysroot"], text=True).strip()


def ensure_driver():
    if os.path.exists(DRIVER):
        return
    subprocess.check_call([os.path.join(VERIF, "setup.sh")], stdout=sys.stderr)


def _input_files(repo):
    out = []
    for rel in ("Cargo.toml", "Cargo.lock", "xtool/Cargo.toml", "xtask/Cargo.toml"):
        p = os.path.join(repo, rel)
        if os.path.exists(p):
            out.append(p)
    for sub in ("src", ".cargo", "xtool/src", "xtask/src"):
        base = os.path.join(repo, sub)
        for root, dirs, files in os.walk(base):
            dirs.sort()
            for f in sorted(files):
                out.append(os.path.join(root, f))
    return out


def tree_hash(repo, config):
    h = hashlib.sha256()
    for p in _input_files(repo):
        h.update(os.path.relpath(p, repo).encode())
        h.update(b"\0")
        with open(p, "rb") as fh:
            h.update(fh.read())
        h.update(b"\0")
    with open(DRIVER, "rb") as fh:
        h.update(hashlib.sha256(fh.read()).digest())
    h.update(config.encode())
    return h.hexdigest()[:32]


def extract(config="default", repo=None, use_cache=True):
    """Return (facts_by_crate, meta). Fails closed (raises) if a fact file is missing."""
    repo = repo or REPO
    ensure_driver()
    os.makedirs(CACHE, exist_ok=True)
    key = tree_hash(repo, config)
    cdir = os.path.join(CACHE, "facts-" + key)
    meta = {"config": config, "key": key, "cached": False, "extract_s": 0.0, "repo": repo}
    if not (use_cache and os.path.isdir(cdir) and all(
            os.path.exists(os.path.join(cdir, c + ".json")) for c in CRATES)):
        t0 = time.time()
        work = tempfile.mkdtemp(prefix="x-", dir=CACHE)
        try:
            fdir = os.path.join(work, "facts")
            tdir = os.path.join(work, "target")
            os.makedirs(fdir)
            sr = _sysroot()
            env = dict(os.environ)
            env.update({
                "LD_LIBRARY_PATH": sr + "/lib" + (":" + env["LD_LIBRARY_PATH"] if env.get("LD_LIBRARY_PATH") else ""),
                "ABSY_SYSROOT": sr,
                "RUSTFLAGS": "-Awarnings",
                "RUSTC_WRAPPER": DRIVER,
                "CARGO_TARGET_DIR": tdir,
                "ABSY_FACTS_DIR": fdir,
                "ABSY_CRATES": ",".join(CRATES),
                "CARGO_NET_OFFLINE": "true",
            })
            env.pop("RUSTC_WORKSPACE_WRAPPER", None)
            cmd = ["cargo", "+nightly", "check", "--offline", "--lib",
                   "--manifest-path", os.path.join(repo, "Cargo.toml")] + CONFIGS[config]
            p = subprocess.run(cmd, env=env, stdout=subprocess.PIPE, stderr=subprocess.STDOUT, text=True)
            if p.returncode != 0:
                raise RuntimeError("fact extraction failed for config %s (the tree does not type-check?):\n%s"
                                   % (config, p.stdout[-4000:]))
            for c in CRATES:
                if not os.path.exists(os.path.join(fdir, c + ".json")):
                    raise RuntimeError("fact file for crate %s missing (wrapper skipped?)" % c)
            tmpc = cdir + ".tmp%d" % os.getpid()
            shutil.rmtree(tmpc, ignore_errors=True)
            shutil.move(fdir, tmpc)
            try:
                os.rename(tmpc, cdir)
            except OSError:
                shutil.rmtree(tmpc, ignore_errors=True)  # someone else won the race
        finally:
            shutil.rmtree(work, ignore_errors=True)
        meta["extract_s"] = round(time.time() - t0, 2)
        _prune_cache()
    else:
        meta["cached"] = True
    facts = {}
    try:
        for c in CRATES:
            with open(os.path.join(cdir, c + ".json")) as fh:
                facts[c] = json.load(fh)
    except (FileNotFoundError, ValueError):
        if not use_cache:
            raise
        # a concurrent run pruned or is still writing this entry: extract afresh
        return extract(config, repo, use_cache=False)
    try:
        os.utime(cdir, None)
    except OSError:
        pass
    return facts, meta


FIXTURE = os.path.join(VERIF, "fixtures", "poscontrol")


def extract_fixture():
    """Facts of the positive-control crate (same driver, same flags)."""
    ensure_driver()
    os.makedirs(CACHE, exist_ok=True)
    h = hashlib.sha256()
    for rel in ("Cargo.toml", "src/lib.rs"):
        with open(os.path.join(FIXTURE, rel), "rb") as fh:
            h.update(fh.read())
    with open(DRIVER, "rb") as fh:
        h.update(hashlib.sha256(fh.read()).digest())
    cdir = os.path.join(CACHE, "fixture-" + h.hexdigest()[:32])
    fpath = os.path.join(cdir, "poscontrol.json")
    if not os.path.exists(fpath):
        work = tempfile.mkdtemp(prefix="x-", dir=CACHE)
        try:
            fdir = os.path.join(work, "facts")
            os.makedirs(fdir)
            sr = _sysroot()
            env = dict(os.environ)
            env.update({"LD_LIBRARY_PATH": sr + "/lib", "ABSY_SYSROOT": sr, "RUSTFLAGS": "-Awarnings", "RUSTC_WRAPPER": DRIVER,
                        "CARGO_TARGET_DIR": os.path.join(work, "target"), "ABSY_FACTS_DIR": fdir, "ABSY_CRATES": "poscontrol",
                        "CARGO_NET_OFFLINE": "true"})
            p = subprocess.run(["cargo", "+nightly", "check", "--offline", "--lib", "--manifest-path", os.path.join(FIXTURE, "Cargo.toml")],
                               env=env, stdout=subprocess.PIPE, stderr=subprocess.STDOUT, text=True)
            if p.returncode != 0 or not os.path.exists(os.path.join(fdir, "poscontrol.json")):
                raise RuntimeError("positive-control fixture extraction failed:\n" + p.stdout[-3000:])
            tmpc = cdir + ".tmp%d" % os.getpid()
            shutil.rmtree(tmpc, ignore_errors=True)
            shutil.move(fdir, tmpc)
            try:
                os.rename(tmpc, cdir)
            except OSError:
                shutil.rmtree(tmpc, ignore_errors=True)
        finally:
            shutil.rmtree(work, ignore_errors=True)
    with open(fpath) as fh:
        return {"poscontrol": json.load(fh)}


def _prune_cache(keep=60, min_age_s=1800):
    """Drop cache entries beyond the `keep` newest, but never one used in the last half hour (parallel runs)."""
    try:
        now = time.time()
        ents = [os.path.join(CACHE, d) for d in os.listdir(CACHE) if d.startswith("facts-") and ".tmp" not in d]
        ents.sort(key=lambda p: os.path.getmtime(p), reverse=True)
        for p in ents[keep:]:
            if now - os.path.getmtime(p) > min_age_s:
                shutil.rmtree(p, ignore_errors=True)
        for d in os.listdir(CACHE):
            p = os.path.join(CACHE, d)
            if (d.startswith("x-") or ".tmp" in d) and now - os.path.getmtime(p) > 3600:
                shutil.rmtree(p, ignore_errors=True)
    except OSError:
        pass


if __name__ == "__main__":
    cfg = sys.argv[1] if len(sys.argv) > 1 else "default"
    f, m = extract(cfg)
    print(m, {c: len(f[c]["functions"]) for c in f})
