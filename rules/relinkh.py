"""Contract of a chain re-link helper of the inner map: `h(self, hash, prev, new)` makes whatever links at `prev` in
the chain of `hash` (the bucket head when `prev` is zero, else the record at `prev`) link to `new`.

Decided on the helper's body (it may loop towards the bucket when the rewritten predecessor itself moves):
  * exactly one zero test on the predecessor value (its origins: the `prev` parameter, or predecessor-search results);
  * zero side: one bucket-head write of (the `hash` parameter, new-ish), and no success return without it;
  * non-zero side: reads the record at the predecessor value, stores new-ish into that record's next link, rewrites the
    record (store dominates the rewrite), and no success return / next round without the rewrite;
  * new-ish = the `new` parameter or the resulting offset of a key rewrite.
Returns {"hash": i, "prev": j, "new": k} (1-based parameter numbers as in origins) or None."""
from .roles import INNER
from .util import calls_to, origins, is_call_to, region_dominated, zero_splits, field_stores
from .fields import pf


def finders(prog, R):
    """Predecessor searches: crate functions (method or free) taking a hash and a key-record offset and returning a key-record
    offset, that read the bucket head and do not compare key bytes (that would be the lookup by key)."""
    KEYOFF = "Piece<abyssiniandb::filedb::inner::semtype::Key>"
    out = []
    for f in prog.fns.values():
        if f.crate != "abyssiniandb" or f.impl_trait is not None or f.kind not in ("AssocFn", "Fn"):
            continue
        if not (any(t.endswith("semtype::HashValue") for t in f.inputs) and any("Offset<" in t and KEYOFF in t and not t.startswith("&") for t in f.inputs)):
            continue
        if not ("Offset<" in f.output and KEYOFF in f.output and f.output.startswith("core::result::Result<")):
            continue
        if calls_to(prog, f, target_fn=R.need("HEAD_READ")) and not calls_to(prog, f, target_fn=R.need("KEY_BYTES_AT")):
            out.append(f)
    return out


def finder_offset_arg(f):
    """index (into the call's args) of the key-record offset a finder searches the predecessor of"""
    KEYOFF = "Piece<abyssiniandb::filedb::inner::semtype::Key>"
    idx = [i for i, t in enumerate(f.inputs) if "Offset<" in t and KEYOFF in t and not t.startswith("&")]
    return idx[0] if len(idx) == 1 else None


def relink_contract(prog, R, h):
    cache = prog.__dict__.setdefault("_relink_contract", {})
    if h.id in cache:
        return cache[h.id]
    cache[h.id] = res = _contract(prog, R, h)
    return res


def _contract(prog, R, h):
    if h.impl_self_adt != INNER or len(h.inputs) != 4:
        return None
    hash_idx = [i + 1 for i, t in enumerate(h.inputs) if t.endswith("semtype::HashValue")]
    off_idx = [i + 1 for i, t in enumerate(h.inputs) if "Offset<" in t and "Piece<abyssiniandb::filedb::inner::semtype::Key>" in t]
    if len(hash_idx) != 1 or len(off_idx) != 2:
        return None
    hash_idx = hash_idx[0]
    fnd = finders(prog, R)
    rewrite, head_write, key_read = R.need("KEY_REWRITE"), R.need("HEAD_WRITE"), R.need("KEY_READ")

    def prevish(os_, idx):
        return bool(os_) and all((o.kind == "param" and o.data == idx and not o.proj) or
                                 (o.kind == "call" and o.proj == ("?ok",) and any(is_call_to(prog, h, o, f) for f in fnd)) for o in os_)

    def newish(os_, idx):
        return bool(os_) and all((o.kind == "param" and o.data == idx and not o.proj) or
                                 (is_call_to(prog, h, o, rewrite) and o.proj[:1] == ("?ok",) and o.proj[-1].endswith(pf(prog, "KeyPiece", "offset"))) for o in os_)

    for prev_idx in off_idx:
        new_idx = [i for i in off_idx if i != prev_idx][0]
        ps = zero_splits(prog, h, lambda a: prevish(a, prev_idx) and any(o.kind == "param" for o in a))
        if len(ps) != 1:
            continue
        z, nz = ps[0]["true"], ps[0]["false"]
        rz, rnz = region_dominated(h, z), region_dominated(h, nz)
        hws = [(b, t) for b, t in calls_to(prog, h, target_fn=head_write)]
        if len(hws) != 1 or hws[0][0] not in rz:
            continue
        b, t = hws[0]
        a1 = origins(prog, h, t["args"][1], at=b)
        if not (a1 and all(o.kind == "param" and o.data == hash_idx and not o.proj for o in a1)):
            continue
        if not newish(origins(prog, h, t["args"][2], at=b), new_idx):
            continue
        if h.success_reach_return(z, [b]):
            continue
        reads = [(bb, tt) for bb, tt in calls_to(prog, h, target_fn=key_read)]
        if len(reads) != 1 or reads[0][0] not in rnz or not prevish(origins(prog, h, reads[0][1]["args"][1], at=reads[0][0]), prev_idx):
            continue
        stores = [(bb, s_) for f, bb, s_ in field_stores(prog, pf(prog, "KeyPiece", "next")) if f.id == h.id]
        if len(stores) != 1 or stores[0][0] not in rnz or not newish(origins(prog, h, stores[0][1]["rhs"].get("a", {}), at=stores[0][0]), new_idx):
            continue
        # the record stored into is the one read, and it is what gets rewritten
        kws = [(bb, tt) for bb, tt in calls_to(prog, h, target_fn=rewrite)]
        if len(kws) != 1 or kws[0][0] not in rnz or not h.dominates(stores[0][0], kws[0][0]) or not h.dominates(reads[0][0], stores[0][0]):
            continue
        rec = origins(prog, h, kws[0][1]["args"][1], at=kws[0][0])
        if not (rec and all(is_call_to(prog, h, o, key_read) and o.block == reads[0][0] for o in rec)):
            continue
        base = stores[0][1]["lhs"]
        bo = origins(prog, h, {"k": "cp", "pl": {"l": base["l"], "p": []}}, at=stores[0][0])
        if not (bo and all(is_call_to(prog, h, o, key_read) and o.block == reads[0][0] for o in bo)):
            continue
        # no success return and no further round without the rewrite
        if h.success_reach_return(nz, [kws[0][0]]) or ps[0]["block"] in h.reachable_ok([nz], avoid={kws[0][0]}):
            continue
        return {"hash": hash_idx, "prev": prev_idx, "new": new_idx}
    return None
