"""Shared analysis of the flush / sync path (used by C03, C15 and C16)."""
from .model import Tracer, short, const_val
from .roles import Roles, INNER, FILEDBINNER, A
from .util import (calls_to, origins, bool_switches, find_bool_split, where, region_dominated, result_fate,
                   is_io_result, callee_name)

BASE = "abyssiniandb::DbXxxBase"
SYNC_METHODS = ("flush", "sync_all", "sync_data")
DIRTY_FIELD = "f:" + INNER + ".dirty"     # default; use dirty_field(prog)


def _dd(prog):
    from .fields import dot
    return dot(prog, "INNER.dirty")


def dirty_field(prog):
    from .fields import fname
    return "f:" + INNER + "." + fname(prog, "INNER.dirty")
FILEDBMAP = "abyssiniandb::filedb::dbmap::FileDbMap"


def dirty_stores(fn, prog=None):
    """[(block, value)] for stores to FileDbXxxInner.dirty in fn; value True/False/None(non-constant)."""
    out = []
    for b, blk in enumerate(fn.blocks):
        if blk["cleanup"]:
            continue
        for s in blk["stmts"]:
            if s["s"] == "assign" and s["lhs"]["p"] and s["lhs"]["p"][-1] == (dirty_field(prog) if prog is not None else DIRTY_FIELD):
                v = const_val(s["rhs"]["a"]) if s["rhs"]["rv"] == "use" else None
                out.append((b, v if isinstance(v, bool) else None))
    return out


def dirty_label_stmt(prog, fn, s):
    if s["s"] == "assign" and s["lhs"]["p"] and s["lhs"]["p"][-1] == dirty_field(prog):
        v = const_val(s["rhs"]["a"]) if s["rhs"]["rv"] == "use" else None
        if v is True:
            return {"DIRTY_SET"}
        if v is False:
            return {"DIRTY_CLEAR"}
        return {"DIRTY_STORE"}
    return ()


def inner_base_method(prog, name):
    r = prog.find(name=name, self_adt=INNER, trait=BASE)
    return r[0] if len(r) == 1 else None


def file_fields(prog):
    """Fields of the inner map struct that are file handles: their type is a crate ADT that has all of
    flush / sync_all / sync_data as inherent methods."""
    adt = prog.adts.get(INNER)
    out = []
    if not adt:
        return out
    for f in adt["variants"][0]["fields"]:
        head = f["ty"].split("<")[0]
        if head in prog.adts and all(prog.find(name=m, self_adt=head, pred=lambda fn: fn.impl_trait is None) for m in SYNC_METHODS):
            out.append((f["name"], head))
    return out


def dirty_split(prog, fn):
    """The bool switch in a sync-family method that tests the dirty flag (via is_dirty() or the field)."""
    def pred(o):
        if o.kind == "call":
            tg, _ = prog.targets(o.data, fn)
            for x in tg:
                # a getter that returns the dirty field
                tr = Tracer(prog, x)
                os_ = tr.place({"l": 0, "p": []})
                if os_ and all(oo.kind == "param" and oo.proj and oo.proj[-1].endswith(_dd(prog)) for oo in os_):
                    return True
            return False
        if o.kind == "param" and o.proj and o.proj[-1].endswith(_dd(prog)):
            return True
        return False
    # flow-insensitive tracing also sees the later `dirty = false` store of the same function as a (constant) origin
    hits = []
    for sw in bool_switches(prog, fn):
        if sw.get("assert_like"):
            continue        # `debug_assert!(!self.is_dirty())` is not the gate
        c = sw["cond"]
        if c and any(pred(o) for o in c) and all(pred(o) or (o.kind == "const" and isinstance(o.data, bool)) for o in c):
            hits.append(sw)
    return hits
